package main

// Recorder for the VM/engine family (C03-C08, C17, C18, C20): drives real engines over programs-as-data and
// records one ndjson line per run-loop iteration (from the verif hook in vm.Run) and per engine call.

import (
	"bytes"
	"context"
	"encoding/hex"
	"encoding/json"
	"fmt"
	"math/rand"
	"os"
	"reflect"
	"regexp"
	"sort"
	"strings"
	"time"

	iso639_3 "github.com/barbashov/iso639-3"

	"git.defalsify.org/vise.git/cache"
	"git.defalsify.org/vise.git/db"
	"git.defalsify.org/vise.git/db/mem"
	"git.defalsify.org/vise.git/engine"
	"git.defalsify.org/vise.git/lang"
	"git.defalsify.org/vise.git/persist"
	"git.defalsify.org/vise.git/resource"
	"git.defalsify.org/vise.git/state"
	"git.defalsify.org/vise.git/vm"
)

// enc is an injective, JSON-safe rendering of arbitrary bytes (junk client input).
func enc(s string) string {
	plain := !strings.HasPrefix(s, "hex:")
	for i := 0; i < len(s) && plain; i++ {
		if s[i] < 0x20 || s[i] > 0x7e {
			plain = false
		}
	}
	if plain {
		return s
	}
	return "hex:" + hex.EncodeToString([]byte(s))
}

type extEntry struct {
	Kind    string  `json:"kind"`
	Sym     string  `json:"sym"`
	Ok      bool    `json:"ok"`
	Code    []Instr `json:"code"`
	Len     int     `json:"len"`
	Id      string  `json:"id"`
	Set     []int   `json:"set"`
	Reset   []int   `json:"reset"`
	Lang    string  `json:"lang"`
	Ctxlang string  `json:"ctxlang"`
}

type inputRec struct {
	Set bool   `json:"set"`
	V   string `json:"v"`
}
type errpRec struct {
	Cls string `json:"cls"`
	Arg string `json:"arg"`
}
type menuItem struct {
	Sel   string `json:"sel"`
	Title string `json:"title"`
}
type browseRec struct {
	Na bool   `json:"na"`
	Ns string `json:"ns"`
	Nt string `json:"nt"`
	Pa bool   `json:"pa"`
	Ps string `json:"ps"`
	Pt string `json:"pt"`
}

type viseSnap struct {
	Path   []string   `json:"path"`
	Idx    int        `json:"idx"`
	Flags  []int      `json:"flags"`
	NFlags int        `json:"nflags"`
	MaxLvl int        `json:"maxlevel"`
	Code   []Instr    `json:"code"`
	CodeOk bool       `json:"codeok"`
	C      cacheSnap  `json:"c"`
	Input  inputRec   `json:"input"`
	Lang   string     `json:"lang"`
	Mapped []kvv      `json:"mapped"`
	Psink  string     `json:"psink"`
	Errp   errpRec    `json:"errp"`
	Menu   []menuItem `json:"menu"`
	Browse browseRec  `json:"browse"`
	Pcount int        `json:"pcount"`
	Msink  bool       `json:"msink"`
	HaveVm bool       `json:"havevm"`
}

func flagsOf(st *state.State) []int {
	r := []int{}
	for i := 0; i < int(st.BitSize) && i/8 < len(st.Flags); i++ {
		if st.Flags[i/8]&(1<<(uint(i)%8)) != 0 {
			r = append(r, i)
		}
	}
	return r
}

func classifyErrp(e string) errpRec {
	switch {
	case e == "":
		return errpRec{}
	case strings.HasPrefix(e, "invalid input: '") && strings.HasSuffix(e, "'"):
		return errpRec{"invalid", enc(e[len("invalid input: '") : len(e)-1])}
	default:
		return errpRec{"err", ""}
	}
}

// snapState projects state + cache (what the engine level can see without a Vm).
func snapState(st *state.State, ca *cache.Cache, code []byte, useCode bool) viseSnap {
	s := viseSnap{Path: append([]string{}, st.ExecPath...), Idx: int(st.SizeIdx), Flags: flagsOf(st), NFlags: int(st.BitSize), MaxLvl: state.MaxLevel,
		Mapped: []kvv{}, Menu: []menuItem{}, Code: []Instr{}, CodeOk: true}
	if ca != nil {
		s.C = snapCache(ca)
	} else {
		s.C = cacheSnap{Frames: [][]kvv{}, Sizes: []kvi{}}
	}
	c := st.Code
	if useCode {
		c = code
	}
	s.Code, s.CodeOk = decode(c)
	in, err := st.GetInput()
	if err == nil {
		s.Input = inputRec{true, enc(string(in))}
	}
	if st.Language != nil {
		s.Lang = st.Language.Code
	}
	return s
}

// snapVm adds the renderer registers.
func snapVm(v *vm.Vm, code []byte, useCode bool) viseSnap {
	st, cam, pg, mn := v.VerifParts()
	ca, _ := cam.(*cache.Cache)
	s := snapState(st, ca, code, useCode)
	s.HaveVm = true
	for k, val := range pg.VerifMapped() {
		t := tok(val)
		s.Mapped = append(s.Mapped, kvv{k, t.Id, t.Len})
	}
	sort.Slice(s.Mapped, func(i, j int) bool { return s.Mapped[i].K < s.Mapped[j].K })
	s.Psink, _ = pg.VerifSink()
	s.Errp = classifyErrp(pg.Error())
	items, pc, sink := mn.VerifState()
	for _, it := range items {
		s.Menu = append(s.Menu, menuItem{it[0], it[1]})
	}
	s.Pcount = int(pc)
	s.Msink = sink
	bc := mn.GetBrowseConfig()
	s.Browse = browseRec{bc.NextAvailable, bc.NextSelector, bc.NextTitle, bc.PreviousAvailable, bc.PreviousSelector, bc.PreviousTitle}
	return s
}

// ---------------------------------------------------------------------------------------------- recording resource

type recResource struct {
	prog *Program
	rec  *sessRec
	pick func(sym string, n int) int
}

func ctxLang(ctx context.Context) string {
	l, ok := lang.LanguageFromContext(ctx)
	if !ok {
		return ""
	}
	return l.Code
}

func (r *recResource) log(e extEntry) {
	if e.Code == nil {
		e.Code = []Instr{}
	}
	if e.Set == nil {
		e.Set = []int{}
	}
	if e.Reset == nil {
		e.Reset = []int{}
	}
	if r.rec != nil {
		r.rec.ext = append(r.rec.ext, e)
	}
}

func (r *recResource) GetCode(ctx context.Context, sym string) ([]byte, error) {
	c, ok := r.prog.code[sym]
	e := extEntry{Kind: "code", Sym: sym, Ok: ok, Ctxlang: ctxLang(ctx)}
	if ok {
		e.Code = r.prog.Nodes[sym]
	}
	r.log(e)
	if !ok {
		return nil, fmt.Errorf("no code for %q", sym)
	}
	return c, nil
}

func (r *recResource) GetTemplate(ctx context.Context, sym string) (string, error) {
	t, ok := r.prog.Templates[sym]
	if !ok {
		t = "N:" + sym
	}
	if r.prog.LangSens {
		if l := ctxLang(ctx); l != "" {
			t = "[" + l + "] " + t
		}
	}
	r.log(extEntry{Kind: "tpl", Sym: sym, Ok: true, Ctxlang: ctxLang(ctx)})
	return t, nil
}

func (r *recResource) GetMenu(ctx context.Context, sym string) (string, error) {
	r.log(extEntry{Kind: "menu", Sym: sym, Ok: true, Ctxlang: ctxLang(ctx)})
	return sym, nil
}

func langClass(content string) string {
	if content == "" {
		return ""
	}
	l := iso639_3.FromAnyCode(content)
	if l == nil {
		return "BAD"
	}
	return l.Part3
}

func (r *recResource) FuncFor(ctx context.Context, sym string) (resource.EntryFunc, error) {
	alts, ok := r.prog.Syms[sym]
	r.log(extEntry{Kind: "funcfor", Sym: sym, Ok: ok, Ctxlang: ctxLang(ctx)})
	if !ok {
		return nil, fmt.Errorf("unknown function: %s", sym)
	}
	return func(ctx context.Context, nodeSym string, input []byte) (resource.Result, error) {
		i := 0
		if r.pick != nil {
			i = r.pick(sym, len(alts))
		}
		d := alts[i%len(alts)]
		content := d.content()
		if d.Echo {
			content = string(input)
		}
		if r.prog.LangSens && !d.Err && len(d.Set) == 0 && content != "" {
			if l := ctxLang(ctx); l != "" {
				content += "~" + l // language-dependent content, as a translated symbol would be
			}
		}
		t := tok(content)
		e := extEntry{Kind: "func", Sym: sym, Ok: !d.Err, Len: t.Len, Id: t.Id, Set: d.Set, Reset: d.Reset, Lang: langClass(content), Ctxlang: ctxLang(ctx)}
		if d.Err {
			e.Len, e.Id, e.Lang = 0, "", ""
		}
		r.log(e)
		if d.Err {
			// (a failing function may hand back a half-filled result next to its error: nothing of it counts)
			return resource.Result{Content: "left over", FlagSet: []uint32{1, 2, 3, 5}, FlagReset: []uint32{4}}, fmt.Errorf("external function %s fails", sym)
		}
		res := resource.Result{Content: content}
		for _, f := range d.Set {
			res.FlagSet = append(res.FlagSet, uint32(f))
		}
		for _, f := range d.Reset {
			res.FlagReset = append(res.FlagReset, uint32(f))
		}
		return res, nil
	}, nil
}

func (r *recResource) Close(ctx context.Context) error { return nil }

// ---------------------------------------------------------------------------------------------- session recorder

type instrEvent struct {
	Ev    string     `json:"ev"`
	Sid   string     `json:"sid"`
	Req   int        `json:"req"`
	Phase string     `json:"phase"` // main | first (the engine's pre-VM check, run on a private Vm)
	Seq   int        `json:"seq"`
	Last  bool       `json:"last"`
	Panic bool       `json:"panic"`
	Pre   viseSnap   `json:"pre"`
	Post  viseSnap   `json:"post"`
	Ext   []extEntry `json:"ext"`
}

type sessRec struct {
	prog      *Program
	sid       string
	req       int
	seq       int
	ext       []extEntry
	prev      *viseSnap
	prevPhase string
	buf       []*instrEvent
	vmp       *vm.Vm
	out       *ndw
	stats     *viseStats
}

type viseStats struct {
	Sessions, Requests, Iterations, Panics int
	Pairs                                  map[string]int
}

var curSess *sessRec

func viseHook(ev string, v *vm.Vm, b []byte) {
	r := curSess
	if r == nil {
		return
	}
	// the engine's pre-VM check runs on a private Vm (own renderer objects) with the pseudo node "_first" on the path
	phase := "main"
	if st, _, _, _ := v.VerifParts(); st != nil {
		for _, n := range st.ExecPath {
			if n == "_first" {
				phase = "first"
			}
		}
	}
	if r.prev != nil && r.prevPhase == "first" {
		phase = "first" // the iteration that leaves the scratch node still belongs to the check
	}
	if phase == "main" {
		r.vmp = v
	}
	s := snapVm(v, b, true)
	if r.prev != nil {
		e := &instrEvent{Ev: "instr", Sid: r.sid, Req: r.req, Phase: phase, Seq: r.seq, Last: ev == "exit", Pre: *r.prev, Post: s, Ext: r.ext}
		if e.Ext == nil {
			e.Ext = []extEntry{}
		}
		r.seq++
		r.buf = append(r.buf, e)
	}
	r.ext = nil
	if ev == "exit" {
		r.prev = nil
		r.prevPhase = ""
		if phase == "first" {
			r.seq = 0 // the application's run numbers its own iterations
		}
	} else {
		r.prev = &s
		r.prevPhase = phase
	}
}

func (r *sessRec) flushInstr(panicked bool) {
	for i, e := range r.buf {
		if panicked && i == len(r.buf)-1 {
			e.Panic = true
		}
		if r.stats != nil {
			r.stats.Iterations++
			if len(e.Pre.Code) > 0 {
				in := e.Pre.Code[0]
				moved := fmt.Sprint(e.Pre.Path, e.Pre.Idx) != fmt.Sprint(e.Post.Path, e.Post.Idx)
				r.stats.Pairs[fmt.Sprintf("%s/%s/moved=%v/ext=%d/last=%v", in.Op, in.Ac, moved, len(e.Ext), e.Last)]++
			}
		}
		r.out.put(e)
	}
	r.buf = nil
	r.prev = nil
	r.ext = nil
}

type reqEvent struct {
	Ev       string     `json:"ev"`
	Sid      string     `json:"sid"`
	Req      int        `json:"req"`
	Mode     string     `json:"mode"`  // L long-lived, P persisted (fresh engine per request)
	Fresh    bool       `json:"fresh"` // first Exec on this engine object
	Pending  bool       `json:"pending"` // the engine object still owes the unwinding of a graceful end (its final page failed to render)
	Input    string     `json:"input"`
	Incls    string     `json:"incls"` // ok | bad (fails the input pattern) | long (> 255 bytes)
	Pre      viseSnap   `json:"pre"`
	Post     viseSnap   `json:"post"` // after Exec
	Cont     bool       `json:"cont"`
	Err      bool       `json:"err"`
	Panic    string     `json:"panic"`
	Niter    int        `json:"niter"`
	Ext      []extEntry `json:"ext"` // all resource interactions of Exec, in order
	Flushed  bool       `json:"flushed"`
	Out      string     `json:"out"`
	Outlen   int        `json:"outlen"`
	Ferr     bool       `json:"ferr"`
	Fnoexec  bool       `json:"fnoexec"` // the Flush error was ErrFlushNoExec
	Fpanic   string     `json:"fpanic"`
	Fext     []extEntry `json:"fext"`
	Post2    viseSnap   `json:"post2"` // after Flush
	Finerr   bool       `json:"finerr"`
	Saved    viseSnap   `json:"saved"` // persisted mode: the stored record re-read into fresh objects
	HaveSave bool       `json:"havesave"`
	Outsize  int        `json:"outsize"`
	Outerr   errpRec    `json:"outerr"` // error prefix found on the first line of the output
	Picks    []int      `json:"picks"`  // alternative chosen by each external call of this request, in call order
	Cfg      EngineOpts `json:"cfg"`    // engine options in force
	Nfirst   int        `json:"nfirst"` // iterations of the pre-VM check (not counted in niter)
	Initd    bool       `json:"initd"`  // the engine object is initialised after Exec (Finish saves the session only then)
	Exit     vtok       `json:"exit"`   // the value the engine set aside to append to the output (read from the engine object)
}

var inputRe = regexp.MustCompile(`^\+?[a-zA-Z0-9].*$`)

// inputClass is the harness's own reading of the engine's input rules (pattern from the docs, 255 byte limit).
// the extra input format of applications with Program.Valid.  The library keeps the formats in a package-level registry:
// once an engine of this process has registered it, every engine of the process accepts it (validOn follows that).
const customFormat = "^#[0-9]+$"

var customRe = regexp.MustCompile(customFormat)
var validOn = false

func inputClass(in string) string {
	if len(in) > 0 && !inputRe.Match([]byte(in)) && !(validOn && customRe.Match([]byte(in))) {
		return "bad"
	}
	if len(in) > 255 {
		return "long"
	}
	return "ok"
}

// engineHost owns one session in one of the two operating modes.
type engineHost struct {
	prog  *Program
	rs    *recResource
	rec   *sessRec
	mode  string
	store dbLike
	cfg   engine.Config
	// long-lived mode
	en    *engine.DefaultEngine
	st    *state.State
	ca    *cache.Cache
	nreq  int
	picks []int
	initd bool
	// mode "R": persisted operation through ONE Persister object that the application reuses for every request of every session
	sharedPe *persist.Persister
}

func newHost(prog *Program, rec *sessRec, mode string, store dbLike, pick func(string, int) int) *engineHost {
	h := &engineHost{prog: prog, rec: rec, mode: mode, store: store}
	if prog.Valid {
		validOn = true
	}
	h.rs = &recResource{prog: prog, rec: rec, pick: func(sym string, n int) int {
		i := 0
		if pick != nil {
			i = pick(sym, n) % n
		}
		h.picks = append(h.picks, i)
		return i
	}}
	h.cfg = engine.Config{Root: prog.Root, FlagCount: uint32(prog.FlagCount), OutputSize: uint32(prog.OutputSize),
		CacheSize: uint32(prog.CacheSize), SessionId: rec.sid, Language: prog.Language, ResetOnEmptyInput: prog.Engine.Rempty}
	return h
}

// withOpts installs the application's pre-VM check function: the alternatives of the symbol "_first", chosen and logged
// like any other external function (the engine calls it through a private resource, so only the call itself is visible).
func (h *engineHost) withOpts(en *engine.DefaultEngine) *engine.DefaultEngine {
	if h.prog.Valid {
		en.AddValidInput(customFormat) // (refused as "already registered" for every engine but the first of the process; the format stays)
	}
	if !h.prog.Engine.First {
		return en
	}
	alts := h.prog.Syms["_first"]
	return en.WithFirst(func(ctx context.Context, nodeSym string, input []byte) (resource.Result, error) {
		d := alts[h.rs.pick("_first", len(alts))%len(alts)]
		content := d.content()
		t := tok(content)
		e := extEntry{Kind: "func", Sym: "_first", Ok: !d.Err, Len: t.Len, Id: t.Id, Set: d.Set, Reset: d.Reset, Lang: langClass(content), Ctxlang: ctxLang(ctx)}
		if d.Err {
			e.Len, e.Id, e.Lang = 0, "", ""
		}
		h.rs.log(e)
		if d.Err {
			return resource.Result{Content: "left over", FlagSet: []uint32{1, 2, 3, 5}, FlagReset: []uint32{4}}, fmt.Errorf("pre-VM check fails")
		}
		res := resource.Result{Content: content}
		for _, f := range d.Set {
			res.FlagSet = append(res.FlagSet, uint32(f))
		}
		for _, f := range d.Reset {
			res.FlagReset = append(res.FlagReset, uint32(f))
		}
		return res, nil
	})
}

// engineInitd reads the engine object's own "initialised" mark.
func engineInitd(en *engine.DefaultEngine) bool {
	return reflect.ValueOf(en).Elem().FieldByName("initd").Bool()
}

func (h *engineHost) freshCache() *cache.Cache {
	ca := cache.NewCache()
	if h.prog.CacheSize > 0 {
		ca = ca.WithCacheSize(uint32(h.prog.CacheSize))
	}
	return ca
}

func (h *engineHost) loadStored() (viseSnap, bool) {
	pe := persist.NewPersister(h.store).WithContent(state.NewState(uint32(h.prog.FlagCount)), h.freshCache())
	if err := pe.Load(h.rec.sid); err != nil {
		return snapState(state.NewState(uint32(h.prog.FlagCount)), h.freshCache(), nil, false), false
	}
	return snapState(pe.GetState(), pe.Memory, nil, false), true
}

// request performs Exec + Flush (+ Finish in persisted mode) and records the request event and its iterations.
func (h *engineHost) request(input string) *reqEvent {
	ctx := context.Background()
	rec := h.rec
	rec.req = h.nreq
	rec.seq = 0
	h.nreq++
	ev := &reqEvent{Ev: "req", Sid: rec.sid, Req: rec.req, Mode: h.mode, Input: enc(input), Incls: inputClass(input), Outsize: h.prog.OutputSize, Cfg: h.prog.Engine}
	var en *engine.DefaultEngine
	var pe *persist.Persister
	if h.mode == "L" {
		if h.en == nil {
			h.st = state.NewState(uint32(h.prog.FlagCount))
			h.ca = cache.NewCache()
			if h.prog.CacheSize > 0 {
				h.ca = h.ca.WithCacheSize(uint32(h.prog.CacheSize))
			}
			h.en = h.withOpts(engine.NewEngine(h.cfg, h.rs).WithState(h.st).WithMemory(h.ca))
		}
		// the engine object initialises the session in the first Exec that gets through init (an over-long input, or a
		// pre-VM check that stops the request, leave it uninitialised): read from the object itself
		ev.Fresh = !engineInitd(h.en)
		ev.Pending = reflect.ValueOf(h.en).Elem().FieldByName("execd").Bool() && reflect.ValueOf(h.en).Elem().FieldByName("exiting").Bool()
		en = h.en
		ev.Pre = h.snapNow()
	} else {
		pe = persist.NewPersister(h.store)
		if h.mode == "R" {
			pe = h.sharedPe
		}
		en = h.withOpts(engine.NewEngine(h.cfg, h.rs).WithPersister(pe))
		ev.Fresh = true
		rec.vmp = nil
		ev.Pre, _ = h.loadStored()
	}
	curSess = rec
	rec.ext = nil
	h.picks = []int{}
	var all []extEntry
	done := make(chan struct{})
	go func() {
		defer close(done)
		defer func() {
			if r := recover(); r != nil {
				ev.Panic = fmt.Sprint(r)
				ev.Err = true
			}
		}()
		cont, err := en.Exec(ctx, []byte(input))
		ev.Cont, ev.Err = cont, err != nil
	}()
	select {
	case <-done:
	case <-time.After(20 * time.Second):
		// the request does not return: recorded as a crash of the request; the process cannot continue
		vm.VerifHook = nil
		ev.Panic = "hang: Exec did not return within 20s"
		ev.Err = true
		ev.Post, ev.Post2, ev.Saved = ev.Pre, ev.Pre, ev.Pre
		ev.Ext, ev.Fext, ev.Picks = []extEntry{}, []extEntry{}, []int{}
		rec.out.put(ev)
		rec.out.close()
		summary(map[string]any{"hang": true, "sid": rec.sid})
		os.Exit(0)
	}
	for _, e := range rec.buf {
		if e.Phase == "first" {
			ev.Nfirst++
		} else {
			ev.Niter++
		}
		all = append(all, e.Ext...)
	}
	all = append(all, rec.ext...)
	if all == nil {
		all = []extEntry{}
	}
	ev.Ext = all
	ev.Initd = engineInitd(en)
	ev.Exit = tok(reflect.ValueOf(en).Elem().FieldByName("exit").String())
	rec.flushInstr(ev.Panic != "")
	if h.mode != "L" {
		h.st = pe.GetState()
		h.ca = pe.Memory
	}
	ev.Post = h.snapNow()
	// Flush
	rec.ext = nil
	if ev.Panic == "" {
		ev.Flushed = true
		func() {
			defer func() {
				if r := recover(); r != nil {
					ev.Fpanic = fmt.Sprint(r)
					ev.Ferr = true
				}
			}()
			w := bytes.NewBuffer(nil)
			_, err := en.Flush(ctx, w)
			ev.Ferr = err != nil
			ev.Fnoexec = err == engine.ErrFlushNoExec
			ev.Out = enc(w.String())
			ev.Outlen = w.Len()
			first := w.String()
			if i := strings.Index(first, "\n"); i >= 0 {
				first = first[:i]
			}
			ev.Outerr = classifyErrp(first)
			if ev.Outerr.Cls != "invalid" {
				ev.Outerr = errpRec{}
			}
		}()
	}
	ev.Fext = rec.ext
	for _, e := range rec.buf { // Render may run the catch move: its lookups belong to the flush too
		ev.Fext = append(ev.Fext, e.Ext...)
	}
	if ev.Fext == nil {
		ev.Fext = []extEntry{}
	}
	rec.flushInstr(ev.Fpanic != "")
	rec.ext = nil
	ev.Post2 = h.snapNow()
	if h.mode != "L" {
		func() {
			defer func() {
				if r := recover(); r != nil {
					ev.Finerr = true
					if ev.Fpanic == "" {
						ev.Fpanic = "finish: " + fmt.Sprint(r)
					}
				}
			}()
			if err := en.Finish(ctx); err != nil {
				ev.Finerr = true
			}
		}()
		ev.Saved, ev.HaveSave = h.loadStored()
	} else {
		ev.Saved = ev.Post2
	}
	curSess = nil
	ev.Picks = h.picks
	rec.out.put(ev)
	if rec.stats != nil {
		rec.stats.Requests++
		if ev.Panic != "" || ev.Fpanic != "" {
			rec.stats.Panics++
		}
	}
	return ev
}

func (h *engineHost) snapNow() viseSnap {
	if h.rec.vmp != nil {
		return snapVm(h.rec.vmp, nil, false)
	}
	if h.st == nil {
		return snapState(state.NewState(uint32(h.prog.FlagCount)), h.freshCache(), nil, false)
	}
	return snapState(h.st, h.ca, nil, false)
}

// ---------------------------------------------------------------------------------------------- program generation

type dbLike = db.Db

func newMemStore() dbLike {
	s := mem.NewMemDb()
	s.Connect(context.Background(), "")
	return s
}

// genProgram builds a random well-formed application (C08's hypothesis): every move target exists, a catch
// node is defined, flags are in range, no node moves to itself, every cycle of moves passes a HALT
// (moves before a node's HALT only go to higher-numbered nodes).
func genProgram(rng *rand.Rand, name string) *Program {
	nn := 3 + rng.Intn(4)
	fc := 2 + rng.Intn(3)
	p := &Program{Name: name, Root: "root", FlagCount: fc, Nodes: map[string][]Instr{}, Templates: map[string]string{}, Syms: map[string][]SymResult{}}
	names := []string{"root"}
	for i := 1; i < nn; i++ {
		names = append(names, fmt.Sprintf("n%d", i))
	}
	nflags := 8 + fc
	if rng.Intn(3) == 0 {
		p.OutputSize = 24 + rng.Intn(120)
	}
	if rng.Intn(4) == 0 {
		p.CacheSize = 6 + rng.Intn(40) // a small cache capacity: LOAD / RELOAD results may be refused for capacity
	}
	clientFlag := func() int { return 8 + rng.Intn(fc) }
	anyFlag := func() int { return rng.Intn(nflags) }
	if rng.Intn(6) == 0 {
		// many client flags (the state stores them in several bytes): indices beyond 255 next to the low ones
		fc = 250 + rng.Intn(60)
		p.FlagCount = fc
		nflags = 8 + fc
		wide := []int{8, 9, 8 + fc - 1}
		for _, f := range []int{255, 256, 257, 260, 262, 263, 264, 265} {
			if f < nflags { // flags are in range (C08's hypothesis on the application)
				wide = append(wide, f)
			}
		}
		clientFlag = func() int { return wide[rng.Intn(len(wide))] }
		anyFlag = func() int {
			if rng.Intn(3) == 0 {
				return rng.Intn(8)
			}
			return wide[rng.Intn(len(wide))]
		}
	}
	// symbols
	nsym := 2 + rng.Intn(4)
	var syms []string
	for i := 0; i < nsym; i++ {
		s := fmt.Sprintf("s%d", i)
		syms = append(syms, s)
		nalt := 1 + rng.Intn(3)
		for a := 0; a < nalt; a++ {
			r := SymResult{Id: string(rune('a' + rng.Intn(26))), Len: []int{0, 1, 2, 3, 5, 8, 13}[rng.Intn(7)], Set: []int{}, Reset: []int{}}
			if rng.Intn(4) == 0 {
				// multi-line content (rows for a sink)
				var rows []string
				for k, nr := 0, 2+rng.Intn(7); k < nr; k++ {
					rows = append(rows, strings.Repeat(string(rune('a'+k)), []int{0, 1, 3, 5, 9, 14}[rng.Intn(6)]))
				}
				r.Content = strings.Join(rows, "\n")
				if r.Content == "" {
					r.Content = "z"
				}
			}
			if echoFunctions && rng.Intn(10) == 0 {
				r.Echo = true // stores the client's input (any accepted bytes)
				r.Len, r.Id, r.Content = 0, "", ""
			}
			switch rng.Intn(12) {
			case 0:
				r.Err = true
			case 1, 2:
				r.Set = append(r.Set, clientFlag())
			case 3:
				r.Reset = append(r.Reset, clientFlag())
			case 4:
				r.Set = append(r.Set, anyFlag(), anyFlag())
				r.Reset = append(r.Reset, anyFlag())
			case 5:
				r.Set = append(r.Set, 7)
				r.Content = []string{"nor", "fra", "en", "xx", "eng", "zzzz"}[rng.Intn(6)]
			case 6:
				if rng.Intn(3) == 0 {
					r.Set = append(r.Set, 6) // TERMINATE requested by external code
				}
			}
			p.Syms[s] = append(p.Syms[s], r)
		}
	}
	sels := []string{"0", "1", "2", "3", "00", "1a", "x"}
	inputs := map[string]bool{"": true, "9": true}
	for i, n := range names {
		var code []Instr
		var mapped []string
		haveSink := false
		// pre-HALT block: MAP / RELOAD only of symbols loaded earlier in the same node; declared sizes mostly fit the results
		loaded := []string{}
		maxLen := func(s string) int {
			m := 0
			for _, r := range p.Syms[s] {
				if l := len(r.content()); l > m {
					m = l
				}
			}
			return m
		}
		nl := rng.Intn(5)
		for k := 0; k < nl; k++ {
			s := syms[rng.Intn(len(syms))]
			switch r := rng.Intn(8); {
			case r < 4 || len(loaded) == 0:
				sz := maxLen(s) + []int{0, 0, 1, 5, 100}[rng.Intn(5)]
				if rng.Intn(3) == 0 && !haveSink {
					sz = 0
				}
				if rng.Intn(25) == 0 && maxLen(s) > 1 {
					sz = maxLen(s) - 1 // a result may exceed its declared size: the request fails
				}
				if sz == 0 && haveSink {
					sz = maxLen(s) + 1
				}
				code = append(code, Instr{Op: "LOAD", A: s, N: sz})
				loaded = append(loaded, s)
				if rng.Intn(2) == 0 {
					code = append(code, Instr{Op: "MAP", A: s})
					mapped = append(mapped, s)
					if sz == 0 {
						haveSink = true
					}
				}
			case r == 4:
				code = append(code, Instr{Op: "RELOAD", A: loaded[rng.Intn(len(loaded))]})
			case r == 5:
				code = append(code, Instr{Op: "MAP", A: loaded[rng.Intn(len(loaded))]})
			default:
				if i+1 < len(names) {
					code = append(code, Instr{Op: "CATCH", A: names[i+1+rng.Intn(len(names)-i-1)], N: anyFlag(), M: rng.Intn(2)})
				} else {
					code = append(code, Instr{Op: "CROAK", N: clientFlag(), M: 1})
				}
			}
		}
		if rng.Intn(8) == 0 {
			code = append(code, Instr{Op: "CROAK", N: anyFlag(), M: rng.Intn(2)})
		}
		kind := rng.Intn(10)
		if kind == 0 && i > 0 {
			// termination node: runs out of bytecode without HALT
			p.Nodes[n] = code
			continue
		}
		if kind == 1 && i+1 < len(names) {
			code = append(code, Instr{Op: "MOVE", A: names[i+1+rng.Intn(len(names)-i-1)]})
			p.Nodes[n] = code
			continue
		}
		nm := rng.Intn(3)
		for k := 0; k < nm; k++ {
			code = append(code, Instr{Op: "MOUT", A: fmt.Sprintf("item%d", k), B: sels[k]})
		}
		if rng.Intn(4) == 0 {
			code = append(code, Instr{Op: "MNEXT", A: "next", B: "11"}, Instr{Op: "MPREV", A: "prev", B: "22"})
		}
		if !haveSink && nm > 0 && p.OutputSize > 0 && rng.Intn(3) == 0 {
			code = append(code, Instr{Op: "MSINK"}) // the menu is this node's sink (only one sink per page)
		}
		code = append(code, Instr{Op: "HALT"})
		if kind == 2 && i > 0 {
			// graceful end node: nothing after HALT
			p.Nodes[n] = code
			continue
		}
		if rng.Intn(5) == 0 && len(mapped) > 0 {
			// a second screen of the same node, reached without any move (the input-check idiom HALT / RELOAD / MAP / HALT)
			for _, m := range mapped {
				if rng.Intn(2) == 0 {
					code = append(code, Instr{Op: "RELOAD", A: m})
				}
				code = append(code, Instr{Op: "MAP", A: m})
			}
			code = append(code, Instr{Op: "HALT"})
		}
		ni := 1 + rng.Intn(5)
		for k := 0; k < ni; k++ {
			var tgt string
			switch r := rng.Intn(10); {
			case r < 5:
				tgt = names[rng.Intn(len(names))]
				if tgt == n {
					tgt = "."
				}
				if tgt == "root" && rng.Intn(2) == 0 {
					tgt = "^"
				}
			default:
				tgt = []string{"_", "^", ".", ">", "<"}[rng.Intn(5)]
			}
			sel := sels[rng.Intn(len(sels))]
			if rng.Intn(10) == 0 {
				sel = "*"
			}
			if tgt == ">" {
				sel = "11"
			}
			if tgt == "<" {
				sel = "22"
			}
			inputs[sel] = true
			code = append(code, Instr{Op: "INCMP", A: tgt, B: sel})
		}
		p.Nodes[n] = code
		t := "N:" + n
		for _, s := range mapped {
			t += " {{." + s + "}}"
		}
		p.Templates[n] = t
	}
	switch rng.Intn(3) {
	case 0:
		p.Nodes["_catch"] = []Instr{{Op: "HALT"}, {Op: "INCMP", A: "_", B: "*"}}
	case 1:
		p.Nodes["_catch"] = []Instr{{Op: "MOUT", A: "back", B: "0"}, {Op: "HALT"}, {Op: "INCMP", A: "_", B: "0"}}
		inputs["0"] = true
	case 2:
		p.Nodes["_catch"] = []Instr{{Op: "HALT"}, {Op: "INCMP", A: "^", B: "*"}}
	}
	delete(inputs, "*")
	p.Inputs = sortedKeys(inputs)
	// engine options of the application
	if rng.Intn(8) == 0 {
		p.Engine.Rempty = true
	}
	if rng.Intn(8) == 0 {
		p.Engine.First = true
		alts := []SymResult{{Set: []int{}, Reset: []int{}}, {Len: 2, Id: "f", Set: []int{clientFlag()}, Reset: []int{}}, {Len: 1, Id: "f", Set: []int{}, Reset: []int{clientFlag()}}}
		if rng.Intn(2) == 0 {
			alts = append(alts, SymResult{Len: 3, Id: "f", Set: []int{6}, Reset: []int{}}) // the check blocks the session, with a message
		}
		if rng.Intn(3) == 0 {
			alts = append(alts, SymResult{Err: true, Set: []int{}, Reset: []int{}})
		}
		p.Syms["_first"] = alts
	}
	// a child may not be its own parent on any path: a named move to X while X is on top panics in state.Down
	// (outside C08's hypothesis); targets equal to the node itself were replaced by "." above.
	// VERIF_VALID=1 (C17): a third of the applications accept one more input format (engine.AddValidInput) and get inputs in it
	if os.Getenv("VERIF_VALID") == "1" && rng.Intn(3) == 0 {
		p.Valid = true
		p.Inputs = append(p.Inputs, "#7", "#42")
	}
	p.build()
	return p
}

// VERIF_ECHO=1 (set by the C08 check only): generated applications have functions that store the client's input as it is, and
// the junk inputs include accepted inputs that are not valid UTF-8
var echoFunctions = os.Getenv("VERIF_ECHO") == "1"

var junkInputs = []string{"", " ", "\x00", "\xff\xfe", "*", "_", "<", ">", "+", "+1", "-1", "é", strings.Repeat("1", 255), strings.Repeat("1", 256), strings.Repeat("x", 300), "1 or 1=1", "\n1"}
// accepted inputs that read as template actions: the invalid-input message carries the input into the page template
var junkTemplate = []string{"9{{", "1{{}}", "a{{ if", "2{{.x}}", "7}}", "1{{end}}", "0{{template \"x\"}}", "3{{/*"}
var junkNonUtf8 = []string{"1\xff", "bob\xc3", "a\x00b", "7\xf0\x9f", "x\xed\xa0\x80"}

func pickInput(rng *rand.Rand, p *Program) string {
	if rng.Intn(8) == 0 {
		if echoFunctions && rng.Intn(3) == 0 {
			if rng.Intn(2) == 0 {
				return junkTemplate[rng.Intn(len(junkTemplate))]
			}
			return junkNonUtf8[rng.Intn(len(junkNonUtf8))]
		}
		return junkInputs[rng.Intn(len(junkInputs))]
	}
	return p.Inputs[rng.Intn(len(p.Inputs))]
}

// vise-random <trace-out> <programs> <sessions-per-program> <max-requests> <mode L|P|LP>
func cmdViseRandom(args []string) error {
	out, err := newNdw(args[0])
	if err != nil {
		return err
	}
	defer out.close()
	var nprog, nsess, maxreq int
	fmt.Sscan(args[1], &nprog)
	fmt.Sscan(args[2], &nsess)
	fmt.Sscan(args[3], &maxreq)
	mode := args[4]
	rng := rand.New(rand.NewSource(seed()))
	vm.VerifHook = viseHook
	stats := &viseStats{Pairs: map[string]int{}}
	for pi := 0; pi < nprog; pi++ {
		p := genProgram(rng, fmt.Sprintf("g%d_%d", seed(), pi))
		state.MaxLevel = 128
		if pi%4 == 3 {
			p.MaxLevel = 3 + rng.Intn(3)
			state.MaxLevel = p.MaxLevel // the depth bound is a library setting; a small one lets histories reach it
		}
		out.put(map[string]any{"ev": "prog", "prog": p})
		for si := 0; si < nsess; si++ {
			m := mode
			if mode == "LP" {
				m = []string{"L", "P"}[si%2]
			}
			rec := &sessRec{prog: p, sid: fmt.Sprintf("%s.s%d", p.Name, si), out: out, stats: stats}
			prng := rand.New(rand.NewSource(rng.Int63()))
			h := newHost(p, rec, m, newMemStore(), func(sym string, n int) int { return prng.Intn(n) })
			stats.Sessions++
			in := ""
			nreq := 1 + rng.Intn(maxreq)
			for j := 0; j < nreq; j++ {
				ev := h.request(in)
				if ev.Panic != "" {
					break
				}
				if m == "L" && (!ev.Cont || (ev.Err && ev.Incls == "ok")) {
					// a long-lived engine is finished here; send a few more requests now and then (must stay harmless)
					if rng.Intn(4) != 0 || j+2 < nreq {
						nreq = j + 2
					}
				}
				in = pickInput(rng, p)
			}
		}
	}
	summary(map[string]any{"programs": nprog, "sessions": stats.Sessions, "requests": stats.Requests, "iterations": stats.Iterations,
		"panics": stats.Panics, "distinct_pairs": len(stats.Pairs), "events": out.n})
	return nil
}

// decIn undoes enc for inputs read from a history file.
func decIn(s string) string {
	if strings.HasPrefix(s, "hex:") {
		if b, err := hex.DecodeString(s[4:]); err == nil {
			return string(b)
		}
	}
	return s
}

func (h *history) decode() {
	for i := range h.Inputs {
		h.Inputs[i] = decIn(h.Inputs[i])
	}
}

type history struct {
	Inputs []string `json:"inputs"`
	Picks  [][]int  `json:"picks"` // per request: alternative index (0-based) of each external call, in call order
	Mode   string   `json:"mode"`
	Tail   bool     `json:"tail"`  // record only the last request (every prefix is itself a history)
	Delay  int      `json:"delay"` // kept-persister pairs: requests of the partner session served before this session's first one
}

// vise-run <program.json> <histories.ndjson> <trace-out> <mode L|P>: run given input histories (from TLC) on the real engine.
func cmdViseRun(args []string) error {
	p, err := loadProgram(args[0])
	if err != nil {
		return err
	}
	out, err := newNdw(args[2])
	if err != nil {
		return err
	}
	defer out.close()
	vm.VerifHook = viseHook
	stats := &viseStats{Pairs: map[string]int{}}
	n := 0
	if p.MaxLevel > 0 {
		state.MaxLevel = p.MaxLevel
	}
	null, _ := newNdw(os.DevNull)
	defer null.close()
	err = eachLine(args[1], func(b []byte) error {
		var h history
		if err := json.Unmarshal(b, &h); err != nil {
			return err
		}
		h.decode()
		mode := args[3]
		if h.Mode != "" {
			mode = h.Mode
		}
		rec := &sessRec{prog: p, sid: fmt.Sprintf("%s.h%d", p.Name, n), out: out, stats: stats}
		n++
		var cur []int
		host := newHost(p, rec, mode, newMemStore(), func(sym string, k int) int {
			if len(cur) == 0 {
				return 0
			}
			i := cur[0]
			cur = cur[1:]
			return i
		})
		stats.Sessions++
		for j, in := range h.Inputs {
			cur = nil
			if j < len(h.Picks) {
				cur = h.Picks[j]
			}
			rec.out = out
			if h.Tail && j < len(h.Inputs)-1 {
				rec.out = null
			}
			ev := host.request(in)
			if ev.Panic != "" {
				break
			}
		}
		return nil
	})
	summary(map[string]any{"sessions": stats.Sessions, "requests": stats.Requests, "iterations": stats.Iterations,
		"panics": stats.Panics, "distinct_pairs": len(stats.Pairs), "events": out.n})
	return err
}

func init() {
	register("vise-random", cmdViseRandom)
	register("vise-run", cmdViseRun)
}
