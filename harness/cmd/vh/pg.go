package main

// Postgres driver (C13): executes operation sequences with fault plans on the real pgDb handle over fakepg.

import (
	"context"
	"encoding/json"
	"fmt"
	"math/rand"
	"strings"

	"git.defalsify.org/vise.git/db"
	"git.defalsify.org/vise.git/db/postgres"
)

type pgOp struct {
	Op string `json:"op"`
	K  string `json:"k"`
	V  int    `json:"v"`
	Fl []bool `json:"fl"`
	// the statements that fail in this operation fail on the client side (the transaction is not poisoned)
	Soft bool `json:"soft"`
}

type pgOpRec struct {
	Op string `json:"op"`
	K  string `json:"k"`
	V  int    `json:"v"`
}

type pgEvent struct {
	Ev    string   `json:"ev"`
	First bool     `json:"first"`
	Op    pgOpRec  `json:"op"`
	Fl    []bool   `json:"fl"`
	Res   string   `json:"res"`
	Val   int      `json:"val"`
	Log   []string `json:"log"`
	Open  int      `json:"open"`
	Twice bool     `json:"twice"` // some transaction was ended more than once / used after its end
	Soft  bool     `json:"soft"`
	// committed content of the server after the operation, per key of the universe (0 = absent): what a fresh handle reads
	Durable map[string]int `json:"durable"`
	Seq     int            `json:"seq"`
}

func runPgSequence(ops []pgOp, seq int, out *ndw, kinds map[string]int) {
	ctx := context.Background()
	srv := newPgServer()
	p := postgres.NewPgDb().WithConnection(srv)
	p.SetPrefix(db.DATATYPE_USERDATA)
	p.SetSession("s")
	for i, o := range ops {
		srv.plan = o.Fl
		srv.soft = o.Soft
		srv.used = 0
		srv.log = nil
		res, val := "", 0
		func() {
			defer func() {
				if r := recover(); r != nil {
					res = "panic"
				}
			}()
			var e error
			switch o.Op {
			case "start":
				e = p.Start(ctx)
			case "stop":
				e = p.Stop(ctx)
			case "close":
				e = p.Close(ctx) // ends an explicit transaction like Stop (the fake's connection stays usable)
			case "abort":
				p.Abort(ctx)
			case "put":
				e = p.Put(ctx, []byte(o.K), []byte{byte(o.V)})
			case "get":
				var v []byte
				v, e = p.Get(ctx, []byte(o.K))
				if e == nil && len(v) == 1 {
					val = int(v[0])
				}
			}
			if e == nil {
				res = "ok"
			} else if db.IsNotFound(e) {
				res = "notfound"
			} else {
				res = "err"
			}
		}()
		ev := pgEvent{Ev: "pgop", First: i == 0, Op: pgOpRec{o.Op, o.K, o.V}, Fl: o.Fl, Res: res, Val: val, Log: []string{}, Open: len(srv.open), Seq: seq, Soft: o.Soft,
			Durable: map[string]int{"a": 0, "b": 0, "c": 0}}
		for sk, sv := range srv.committed {
			if len(sv) == 1 && len(sk) > 0 {
				ev.Durable[sk[len(sk)-1:]] = int(sv[0])
			}
		}
		if ev.Fl == nil {
			ev.Fl = []bool{}
		}
		for _, l := range srv.log {
			if strings.HasPrefix(l, "REFUSED") {
				ev.Twice = true
			}
			if j := strings.Index(l, ":"); j > 0 && !strings.HasPrefix(l, "FAIL") && !strings.HasPrefix(l, "REFUSED") {
				l = l[:j]
			}
			ev.Log = append(ev.Log, l)
		}
		kinds[fmt.Sprintf("%s/%s/fault=%v", o.Op, res, len(o.Fl) > 0)]++
		out.put(ev)
		if res == "panic" {
			return
		}
	}
}

// pg-run <behaviours.ndjson> <trace-out>
func cmdPgRun(args []string) error {
	out, err := newNdw(args[1])
	if err != nil {
		return err
	}
	defer out.close()
	n := 0
	kinds := map[string]int{}
	err = eachLine(args[0], func(b []byte) error {
		var ops []pgOp
		if err := json.Unmarshal(b, &ops); err != nil {
			return err
		}
		runPgSequence(ops, n, out, kinds)
		n++
		return nil
	})
	summary(map[string]any{"sequences": n, "events": out.n, "distinct": len(kinds)})
	return err
}

// pg-random <trace-out> <sequences> <maxlen>
func cmdPgRandom(args []string) error {
	out, err := newNdw(args[0])
	if err != nil {
		return err
	}
	defer out.close()
	var nseq, maxlen int
	fmt.Sscan(args[1], &nseq)
	fmt.Sscan(args[2], &maxlen)
	rng := rand.New(rand.NewSource(seed()))
	kinds := map[string]int{}
	keys := []string{"a", "b", "c"}
	for s := 0; s < nseq; s++ {
		var ops []pgOp
		n := 1 + rng.Intn(maxlen)
		explicit := rng.Intn(3) == 0 // sequences with explicit transactions are affected by the sticky-multi finding
		for i := 0; i < n; i++ {
			var o pgOp
			switch r := rng.Intn(100); {
			case r < 40:
				o = pgOp{Op: "put", K: keys[rng.Intn(3)], V: 1 + rng.Intn(9)}
			case r < 80 || !explicit:
				o = pgOp{Op: "get", K: keys[rng.Intn(3)]}
			case r < 88:
				o = pgOp{Op: "start", K: "-"}
			case r < 93:
				o = pgOp{Op: "stop", K: "-"}
			case r < 96:
				o = pgOp{Op: "close", K: "-"}
			default:
				o = pgOp{Op: "abort", K: "-"}
			}
			if rng.Intn(6) == 0 {
				k := rng.Intn(3)
				for j := 0; j < k; j++ {
					o.Fl = append(o.Fl, false)
				}
				o.Fl = append(o.Fl, true)
				o.Soft = rng.Intn(2) == 0 && (o.Op == "put" || o.Op == "get")
			}
			ops = append(ops, o)
		}
		runPgSequence(ops, s, out, kinds)
	}
	summary(map[string]any{"sequences": nseq, "events": out.n, "distinct": len(kinds)})
	return nil
}

func init() {
	register("pg-run", cmdPgRun)
	register("pg-random", cmdPgRandom)
}
