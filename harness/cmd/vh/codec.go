package main

// Codec drivers (C14, C15): the real encoders (vm.NewLine, the assembler's writers through asm.Parse) and decoders
// (vm.Parse*, ParseHandler.ParseAll / ToString, Vm.Run) on instruction lists and on arbitrary byte strings.

import (
	"bytes"
	"context"
	"encoding/binary"
	"encoding/json"
	"fmt"
	"math/rand"
	"os"
	"regexp"
	"strconv"
	"strings"

	"git.defalsify.org/vise.git/asm"
	"git.defalsify.org/vise.git/cache"
	"git.defalsify.org/vise.git/render"
	"git.defalsify.org/vise.git/resource"
	"git.defalsify.org/vise.git/state"
	"git.defalsify.org/vise.git/vm"
)

type aInstr struct {
	Op int   `json:"op"`
	A  []int `json:"a"`
	B  []int `json:"b"`
	N  []int `json:"n"` // 4 bytes, big endian
	M  int   `json:"m"`
}

func ints(b []byte) []int {
	r := make([]int, len(b))
	for i, x := range b {
		r[i] = int(x)
	}
	return r
}
func bytesOf(a []int) []byte {
	r := make([]byte, len(a))
	for i, x := range a {
		r[i] = byte(x)
	}
	return r
}
func u32(n []int) uint32 {
	return binary.BigEndian.Uint32(bytesOf(n))
}
func n4(v uint32) []int {
	b := make([]byte, 4)
	binary.BigEndian.PutUint32(b, v)
	return ints(b)
}
func minimal(v uint32) []byte {
	b := make([]byte, 4)
	binary.BigEndian.PutUint32(b, v)
	for len(b) > 1 && b[0] == 0 {
		b = b[1:]
	}
	return b
}

var shapes = map[int]string{0: "none", 7: "none", 9: "none", 4: "sym", 5: "sym", 6: "sym", 8: "symsym", 10: "symsym", 11: "symsym", 12: "symsym", 3: "symint", 1: "symintmode", 2: "intmode"}

func (i aInstr) newLine(b []byte) []byte {
	switch shapes[i.Op] {
	case "none":
		return vm.NewLine(b, uint16(i.Op), nil, nil, nil)
	case "sym":
		return vm.NewLine(b, uint16(i.Op), []string{string(bytesOf(i.A))}, nil, nil)
	case "symsym":
		return vm.NewLine(b, uint16(i.Op), []string{string(bytesOf(i.A)), string(bytesOf(i.B))}, nil, nil)
	case "symint":
		return vm.NewLine(b, uint16(i.Op), []string{string(bytesOf(i.A))}, minimal(u32(i.N)), nil)
	case "symintmode":
		return vm.NewLine(b, uint16(i.Op), []string{string(bytesOf(i.A))}, minimal(u32(i.N)), []uint8{uint8(i.M)})
	default:
		return vm.NewLine(b, uint16(i.Op), nil, minimal(u32(i.N)), []uint8{uint8(i.M)})
	}
}

// symbols the assembly language can spell (an upper-case first letter lexes as an opcode)
var identRe = regexp.MustCompile(`^[a-z_][a-zA-Z0-9_]*$`)

// source text of an instruction in the assembly language, if it can be written there unambiguously
func (i aInstr) source() (string, bool) {
	a, b := string(bytesOf(i.A)), string(bytesOf(i.B))
	name := opnames[uint16(i.Op)]
	switch shapes[i.Op] {
	case "none":
		return name, i.Op != 0
	case "sym":
		return name + " " + a, identRe.MatchString(a) || a == "_" || a == "^" || a == "." || a == ">" || a == "<"
	case "symsym":
		return name + " " + a + " " + b, identRe.MatchString(a) && identRe.MatchString(b)
	case "symint":
		return fmt.Sprintf("%s %s %d", name, a, u32(i.N)), identRe.MatchString(a)
	case "symintmode":
		return fmt.Sprintf("%s %s %d %d", name, a, u32(i.N), i.M), identRe.MatchString(a)
	default:
		return fmt.Sprintf("%s %d %d", name, u32(i.N), i.M), true
	}
}

// decode with the VM's own parse functions, one instruction at a time
func vmDecode(b []byte) (out []aInstr, consumed []int, ok bool, pan string) {
	out, consumed = []aInstr{}, []int{}
	defer func() {
		if r := recover(); r != nil {
			pan = fmt.Sprint(r)
			ok = false
		}
	}()
	for len(b) > 0 {
		before := len(b)
		op, rest, err := vm.ParseOp(b)
		if err != nil {
			return out, consumed, false, ""
		}
		in := aInstr{Op: int(op), A: []int{}, B: []int{}, N: []int{0, 0, 0, 0}}
		switch shapes[int(op)] {
		case "none":
		case "sym":
			var s string
			s, rest, err = vm.ParseMove(rest)
			in.A = ints([]byte(s))
		case "symsym":
			var s, t string
			s, t, rest, err = vm.ParseInCmp(rest)
			in.A, in.B = ints([]byte(s)), ints([]byte(t))
		case "symint":
			var s string
			var n uint32
			s, n, rest, err = vm.ParseLoad(rest)
			in.A, in.N = ints([]byte(s)), n4(n)
		case "symintmode":
			var s string
			var n uint32
			var m bool
			s, n, m, rest, err = vm.ParseCatch(rest)
			in.A, in.N = ints([]byte(s)), n4(n)
			if m {
				in.M = 1
			}
		case "intmode":
			var n uint32
			var m bool
			n, m, rest, err = vm.ParseCroak(rest)
			in.N = n4(n)
			if m {
				in.M = 1
			}
		}
		if err != nil {
			return out, consumed, false, ""
		}
		out = append(out, in)
		consumed = append(consumed, before-len(rest))
		b = rest
	}
	return out, consumed, true, ""
}

// parse the disassembler's listing back into records (harness-owned reading of the listing format)
func parseListing(txt string) ([]aInstr, bool) {
	out := []aInstr{}
	for _, line := range strings.Split(strings.TrimRight(txt, "\n"), "\n") {
		if line == "" {
			continue
		}
		f := strings.Split(line, " ")
		op, ok := opcodes[f[0]]
		if !ok {
			return out, false
		}
		in := aInstr{Op: int(op), A: []int{}, B: []int{}, N: []int{0, 0, 0, 0}}
		num := func(s string) []int { v, _ := strconv.ParseUint(s, 10, 32); return n4(uint32(v)) }
		switch shapes[int(op)] {
		case "sym":
			in.A = ints([]byte(strings.Join(f[1:], " ")))
		case "symsym":
			if len(f) < 3 {
				return out, false
			}
			in.A, in.B = ints([]byte(f[1])), ints([]byte(strings.Join(f[2:], " ")))
		case "symint":
			if len(f) < 3 {
				return out, false
			}
			in.A, in.N = ints([]byte(strings.Join(f[1:len(f)-1], " "))), num(f[len(f)-1])
		case "symintmode":
			if len(f) < 4 {
				return out, false
			}
			in.A, in.N = ints([]byte(strings.Join(f[1:len(f)-2], " "))), num(f[len(f)-2])
			in.M, _ = strconv.Atoi(f[len(f)-1])
		case "intmode":
			if len(f) < 3 {
				return out, false
			}
			in.N = num(f[1])
			in.M, _ = strconv.Atoi(f[2])
		}
		out = append(out, in)
	}
	return out, true
}

type encEvent struct {
	Ev       string   `json:"ev"`
	Prog     []aInstr `json:"prog"`
	Nl       []int    `json:"nl"` // bytes from vm.NewLine
	HaveAsm  bool     `json:"haveasm"`
	Asm      []int    `json:"asm"` // bytes from asm.Parse of the printed source
	AsmErr   bool     `json:"asmerr"`
	Dec      []aInstr `json:"dec"` // vm.Parse* one by one
	Consumed []int    `json:"consumed"`
	DecOk    bool     `json:"decok"`
	DecPanic string   `json:"decpanic"`
	List     []aInstr `json:"list"` // ToString parsed back
	ListOk   bool     `json:"listok"`
}

func safeToString(b []byte) (s string, verdict string) {
	defer func() {
		if r := recover(); r != nil {
			verdict = "panic"
		}
	}()
	s, err := vm.NewParseHandler().WithDefaultHandlers().ToString(b)
	if err != nil {
		return "", "err"
	}
	return s, "ok"
}

func safeParseAll(b []byte) (verdict string) {
	defer func() {
		if r := recover(); r != nil {
			verdict = "panic"
		}
	}()
	_, err := vm.NewParseHandler().WithDefaultHandlers().ParseAll(b)
	if err != nil {
		return "err"
	}
	return "ok"
}

func encCase(prog []aInstr) encEvent {
	ev := encEvent{Ev: "enc", Prog: prog, Asm: []int{}}
	var nl []byte
	src := ""
	expressible := true
	for _, in := range prog {
		nl = in.newLine(nl)
		s, ok := in.source()
		if !ok {
			expressible = false
		}
		src += s + "\n"
	}
	ev.Nl = ints(nl)
	if expressible {
		ev.HaveAsm = true
		func() {
			defer func() {
				if r := recover(); r != nil {
					ev.AsmErr = true
				}
			}()
			w := bytes.NewBuffer(nil)
			if _, err := asm.Parse(src, w); err != nil {
				ev.AsmErr = true
			}
			ev.Asm = ints(w.Bytes())
		}()
	}
	ev.Dec, ev.Consumed, ev.DecOk, ev.DecPanic = vmDecode(nl)
	txt, v := safeToString(nl)
	ev.List = []aInstr{}
	if v == "ok" {
		ev.List, ev.ListOk = parseListing(txt)
	}
	return ev
}

// codec-cases <cases.ndjson> <trace-out>: cases from TLC: {prog: [instr...], bytes: [...]}
func cmdCodecCases(args []string) error {
	out, err := newNdw(args[1])
	if err != nil {
		return err
	}
	defer out.close()
	n := 0
	err = eachLine(args[0], func(b []byte) error {
		var c struct {
			Prog []aInstr `json:"prog"`
		}
		if err := json.Unmarshal(b, &c); err != nil {
			return err
		}
		out.put(encCase(c.Prog))
		n++
		return nil
	})
	summary(map[string]any{"cases": n})
	return err
}

func randSym(rng *rand.Rand) []int {
	n := []int{1, 1, 2, 3, 5, 8, 13, 40, 100, 254, 255}[rng.Intn(11)]
	al := "abcdefghijklmnopqrstuvwxyzABCXYZ_0123456789"
	b := make([]byte, n)
	b[0] = al[rng.Intn(30)]
	for i := 1; i < n; i++ {
		b[i] = al[rng.Intn(len(al))]
	}
	if rng.Intn(4) == 0 {
		// the format carries symbols of any bytes: punctuation (format verbs, quotes, template braces, backslashes) and non-ASCII
		// bytes - everything but the two characters the listing itself is made of (space, line feed)
		wide := "%%%!\"#$&'()*+,-./:;<=>?@[\\]^`{|}~\x80\xc3\xa9\xff\t%sdvx"
		for i := 0; i < n; i++ {
			if i == 0 || rng.Intn(3) == 0 {
				b[i] = wide[rng.Intn(len(wide))]
			}
		}
	}
	return ints(b)
}

func randInt(rng *rand.Rand) []int {
	switch rng.Intn(4) {
	case 0:
		return n4(uint32(rng.Intn(300)))
	case 1:
		e := uint32(1) << uint(8*(1+rng.Intn(3)))
		return n4(e - 2 + uint32(rng.Intn(4)))
	case 2:
		return n4(0xffffffff - uint32(rng.Intn(3)))
	}
	return n4(rng.Uint32())
}

func randProg(rng *rand.Rand, maxn int) []aInstr {
	n := 1 + rng.Intn(maxn)
	var p []aInstr
	for i := 0; i < n; i++ {
		op := 1 + rng.Intn(12)
		in := aInstr{Op: op, A: []int{}, B: []int{}, N: []int{0, 0, 0, 0}}
		switch shapes[op] {
		case "sym":
			in.A = randSym(rng)
		case "symsym":
			in.A, in.B = randSym(rng), randSym(rng)
		case "symint":
			in.A, in.N = randSym(rng), randInt(rng)
		case "symintmode":
			in.A, in.N, in.M = randSym(rng), randInt(rng), rng.Intn(2)
		case "intmode":
			in.N, in.M = randInt(rng), rng.Intn(2)
		}
		p = append(p, in)
	}
	return p
}

// codec-random <trace-out> <programs>: whole generated programs through all encoders and decoders
func cmdCodecRandom(args []string) error {
	out, err := newNdw(args[0])
	if err != nil {
		return err
	}
	defer out.close()
	var n int
	fmt.Sscan(args[1], &n)
	rng := rand.New(rand.NewSource(seed()))
	for i := 0; i < n; i++ {
		out.put(encCase(randProg(rng, 12)))
	}
	summary(map[string]any{"cases": n})
	return nil
}

// ---- C15: arbitrary byte strings

type haltRes struct{ resource.MenuResource }

func runVerdict(b []byte) (verdict string, tops [][]int) {
	tops = [][]int{}
	defer func() { vm.VerifHook = nil }()
	defer func() {
		if r := recover(); r != nil {
			verdict = "panic"
			if strings.Contains(fmt.Sprint(r), "is out of range of bitfield size") {
				verdict = "flagrange" // executing a well-decoded CATCH/CROAK with a flag beyond the state's flag count: not a decoding matter
			}
		}
	}()
	// Executing a CATCH/CROAK whose flag lies beyond the state's flag count panics in state.GetFlag: an execution matter
	// (C08: flags in range), not a decoding one.  Because the VM appends fetched code to the pending buffer before it decodes
	// the next instruction, even a CATCH/CROAK that is truncated in this string can be completed by appended bytes; so strings
	// in which the harness's own scan meets a CATCH/CROAK whose flag is not a small in-range number are not run.
	for rest := b; len(rest) >= 2; {
		op := int(rest[0])<<8 | int(rest[1])
		d, _ := decode(rest)
		if op == 1 || op == 2 {
			if len(d) == 0 || d[0].N >= 16 || d[0].N < 0 {
				return "skipped", tops
			}
		}
		if len(d) == 0 {
			break
		}
		// advance by the encoded length of the first instruction
		n := instrLen(rest)
		if n <= 0 || n > len(rest) {
			break
		}
		rest = rest[n:]
	}
	st := state.NewState(8)
	st.Down("root")
	st.SetInput([]byte("1"))
	ca := cache.NewCache()
	ca.Push()
	rs := resource.NewMenuResource()
	rs.WithCodeGetter(func(ctx context.Context, s string) ([]byte, error) {
		return vm.NewLine(nil, vm.HALT, nil, nil, nil), nil
	})
	rs.WithEntryFuncGetter(func(ctx context.Context, s string) (resource.EntryFunc, error) {
		return func(ctx context.Context, sym string, in []byte) (resource.Result, error) {
			return resource.Result{Content: "x"}, nil
		}, nil
	})
	v := vm.NewVm(st, rs, ca, render.NewSizer(0))
	// what the VM is about to decode at every instruction boundary (pending code, incl. code fetched by earlier
	// instructions), unless TERMINATE makes it leave without decoding
	vm.VerifHook = func(ev string, x *vm.Vm, pending []byte) {
		if ev == "top" && !st.MatchFlag(state.FLAG_TERMINATE, true) && len(tops) < 64 {
			tops = append(tops, ints(pending))
		}
	}
	_, err := v.Run(context.Background(), append([]byte{}, b...))
	if err != nil {
		return "err", tops
	}
	return "ok", tops
}

// instrLen is the byte length of the first instruction of b per the format (0 if it is not complete).
func instrLen(b []byte) (n int) {
	defer func() {
		if r := recover(); r != nil {
			n = 0
		}
	}()
	op := int(b[0])<<8 | int(b[1])
	i := 2
	sym := func() { i += 1 + int(b[i]) }
	num := func() { i += 1 + int(b[i]) }
	switch shapes[op] {
	case "sym":
		sym()
	case "symsym":
		sym()
		sym()
	case "symint":
		sym()
		num()
	case "symintmode":
		sym()
		num()
		i++
	case "intmode":
		num()
		i++
	case "none":
	default:
		return 0
	}
	if i > len(b) {
		return 0
	}
	return i
}

type decEvent struct {
	Ev       string  `json:"ev"`
	Bytes    []int   `json:"bytes"`
	ParseAll string  `json:"parseall"`
	ToString string  `json:"tostring"`
	Run      string  `json:"run"`
	Src      string  `json:"src"`
	Tops     [][]int `json:"tops"` // pending code at every instruction boundary of the run
}

func decCase(b []byte, src string) decEvent {
	_, ts := safeToString(b)
	rv, tops := runVerdict(b)
	return decEvent{Ev: "dec", Bytes: ints(b), ParseAll: safeParseAll(b), ToString: ts, Run: rv, Src: src, Tops: tops}
}

// codec-strings <strings.ndjson> <trace-out>: byte strings from TLC (exhaustive small strings)
func cmdCodecStrings(args []string) error {
	out, err := newNdw(args[1])
	if err != nil {
		return err
	}
	defer out.close()
	kinds := map[string]int{}
	err = eachLine(args[0], func(b []byte) error {
		var c []int
		if err := json.Unmarshal(b, &c); err != nil {
			return err
		}
		ev := decCase(bytesOf(c), "tlc")
		kinds[ev.ParseAll+"/"+ev.Run]++
		out.put(ev)
		return nil
	})
	summary(map[string]any{"cases": out.n, "verdicts": kinds})
	return err
}

// codec-mutate <trace-out> <programs>: every truncation and single-byte corruptions of generated valid programs
func cmdCodecMutate(args []string) error {
	out, err := newNdw(args[0])
	if err != nil {
		return err
	}
	defer out.close()
	var n int
	fmt.Sscan(args[1], &n)
	rng := rand.New(rand.NewSource(seed()))
	kinds := map[string]int{}
	put := func(b []byte, src string) {
		ev := decCase(b, src)
		kinds[src+"/"+ev.ParseAll+"/"+ev.Run]++
		out.put(ev)
	}
	for i := 0; i < n; i++ {
		var prog []aInstr
		switch i % 4 {
		case 1:
			// the rest of the program is decoded by the VM AFTER an input match (the test input is "1"): every
			// truncation and corruption of it is met in that VM state too
			prog = append(prog, aInstr{Op: 8, A: ints([]byte("tgt")), B: ints([]byte("1")), N: []int{0, 0, 0, 0}})
		case 2:
			prog = append(prog, aInstr{Op: 8, A: ints([]byte("tgt")), B: ints([]byte("*")), N: []int{0, 0, 0, 0}})
		case 3:
			// ... and after an INCMP that did not match
			prog = append(prog, aInstr{Op: 8, A: ints([]byte("tgt")), B: ints([]byte("7")), N: []int{0, 0, 0, 0}})
		}
		body := randProg(rng, 4)
		if i%4 != 0 && (i/4)%2 == 0 {
			// half of these: exactly ONE instruction after the INCMP, cycling through all opcodes, so that every opcode's
			// truncations and corruptions are decoded in that VM state (nothing in between can end the run first)
			for {
				body = randProg(rng, 1)
				if body[0].Op == 1+(i/8)%12 {
					break
				}
			}
		}
		for _, in := range body {
			// keep symbols short so that every truncation point is visited
			if len(in.A) > 6 {
				in.A = in.A[:6]
			}
			if len(in.B) > 6 {
				in.B = in.B[:6]
			}
			prog = append(prog, in)
		}
		var b []byte
		for _, in := range prog {
			b = in.newLine(b)
		}
		put(b, "valid")
		// over-long integers: the same program with one integer written in 5 or 8 bytes (zero-padded in front, so that the
		// VALUE still fits 32 bits) - malformed by the format, whatever the value
		for j, in := range prog {
			if sh := shapes[in.Op]; sh == "symint" || sh == "symintmode" || sh == "intmode" {
				for _, L := range []int{5, 8} {
					var ob []byte
					for q, x := range prog {
						if q != j {
							ob = x.newLine(ob)
							continue
						}
						v := minimal(u32(x.N))
						pad := append(make([]byte, L-len(v)), v...)
						switch sh {
						case "symint":
							ob = vm.NewLine(ob, uint16(x.Op), []string{string(bytesOf(x.A))}, pad, nil)
						case "symintmode":
							ob = vm.NewLine(ob, uint16(x.Op), []string{string(bytesOf(x.A))}, pad, []uint8{uint8(x.M)})
						default:
							ob = vm.NewLine(ob, uint16(x.Op), nil, pad, []uint8{uint8(x.M)})
						}
					}
					put(ob, "overlong")
				}
			}
		}
		for k := 0; k < len(b); k++ {
			put(b[:k], "trunc")
		}
		for k := 0; k < len(b); k++ {
			for _, x := range []byte{0, 1, 5, 13, 255, b[k] + 1} {
				if x == b[k] {
					continue
				}
				c := append([]byte{}, b...)
				c[k] = x
				put(c, "corrupt")
			}
		}
	}
	summary(map[string]any{"cases": out.n, "verdicts": kinds})
	return nil
}

func init() {
	register("codec-cases", cmdCodecCases)
	register("codec-random", cmdCodecRandom)
	register("codec-strings", cmdCodecStrings)
	register("codec-mutate", cmdCodecMutate)
}

// asm-try: assemble stdin, print bytes or error (debug helper)
func cmdAsmTry(args []string) error {
	var sb strings.Builder
	buf := make([]byte, 1<<16)
	for {
		n, err := os.Stdin.Read(buf)
		sb.Write(buf[:n])
		if err != nil {
			break
		}
	}
	w := bytes.NewBuffer(nil)
	func() {
		defer func() {
			if r := recover(); r != nil {
				fmt.Println("PANIC", r)
			}
		}()
		_, err := asm.Parse(sb.String(), w)
		fmt.Println("err:", err)
	}()
	fmt.Println(w.Bytes())
	d, ok := decode(w.Bytes())
	fmt.Println(ok, d)
	return nil
}

func init() { register("asm-try", cmdAsmTry) }

// codec-sweep <lo> <hi>: every uint32 in [lo, hi] through the assembler's integer encoder and the VM's integer decoder,
// against the width-class table checked by TLC (BytecodeMC C14_WidthClasses): [0,255]->1, [256,65535]->2, [65536,2^24-1]->3, rest->4.
func cmdCodecSweep(args []string) error {
	lo, _ := strconv.ParseUint(args[0], 10, 64)
	hi, _ := strconv.ParseUint(args[1], 10, 64)
	nw := 16
	type res struct {
		n   uint64
		bad []string
	}
	ch := make(chan res, nw)
	span := (hi - lo + 1 + uint64(nw) - 1) / uint64(nw)
	for w := 0; w < nw; w++ {
		go func(a, b uint64) {
			r := res{}
			pre := []byte{1, 'x'} // symbol field in front, as in LOAD x <n>
			for v := a; v <= b && v <= hi; v++ {
				n := uint32(v)
				want := 4
				switch {
				case n <= 0xff:
					want = 1
				case n <= 0xffff:
					want = 2
				case n <= 0xffffff:
					want = 3
				}
				enc, err := asm.VerifWriteSize(n)
				bad := ""
				if err != nil || len(enc) != 1+want || int(enc[0]) != want {
					bad = fmt.Sprintf("width %v enc=%v err=%v", n, enc, err)
				} else {
					var be [4]byte
					binary.BigEndian.PutUint32(be[:], n)
					if !bytes.Equal(enc[1:], be[4-want:]) {
						bad = fmt.Sprintf("bytes %v enc=%v", n, enc)
					}
					_, got, rest, derr := vm.ParseLoad(append(append([]byte{}, pre...), enc...))
					if derr != nil || got != n || len(rest) != 0 {
						bad = fmt.Sprintf("decode %v enc=%v got=%v rest=%v err=%v", n, enc, got, rest, derr)
					}
				}
				if bad != "" && len(r.bad) < 5 {
					r.bad = append(r.bad, bad)
				}
				r.n++
			}
			ch <- r
		}(lo+uint64(w)*span, lo+uint64(w+1)*span-1)
	}
	total := uint64(0)
	var bad []string
	for w := 0; w < nw; w++ {
		r := <-ch
		total += r.n
		bad = append(bad, r.bad...)
	}
	if bad == nil {
		bad = []string{}
	}
	summary(map[string]any{"values": total, "bad": bad})
	return nil
}

func init() { register("codec-sweep", cmdCodecSweep) }
