package main

// engine.Loop (engine/loop.go) against its specification (spec/Loop.tla): the line-oriented driver is a refinement of
// "Exec, Flush, newline" per request.  A history is served once request by request on a long-lived engine (the reference,
// with the inputs as Loop hands them to the engine: the first one as given, every line trimmed) and once through the real
// engine.Loop over a reader that hands out one line per Read and a writer that tags every Write with the number of lines
// consumed so far.  If the Loop's engine has a persister, the remaining inputs are then served by fresh engines from the
// store (Loop's deferred Finish must have saved the session).  One "pair" line of kind "loop"; TLC judges it.

import (
	"context"
	"encoding/json"
	"fmt"
	"io"
	"os"
	"strings"
	"time"

	"git.defalsify.org/vise.git/cache"
	"git.defalsify.org/vise.git/engine"
	"git.defalsify.org/vise.git/persist"
	"git.defalsify.org/vise.git/state"
	"git.defalsify.org/vise.git/vm"
)

type refRec struct {
	Cont   bool   `json:"cont"`
	Err    bool   `json:"err"`
	Ferr   bool   `json:"ferr"`
	Noexec bool   `json:"noexec"`
	Out    string `json:"out"`
}

type loopW struct {
	Body string `json:"body"`
	Nl   bool   `json:"nl"`
}

type loopEvent struct {
	Ev        string   `json:"ev"`
	Kind      string   `json:"kind"`
	Sid       string   `json:"sid"`
	Store     string   `json:"store"`
	Inputs    []string `json:"inputs"`
	Extra     []string `json:"extra"`
	Raw       [][]int  `json:"raw"`   // bytes of the initial value and of every line (without its line feed)
	Refin     [][]int  `json:"refin"` // bytes of the inputs the reference engine was given
	Lastnl    bool     `json:"lastnl"`
	Nlines    int      `json:"nlines"` // inputs the reader can deliver: the initial value and the complete lines
	A         []refRec `json:"a"`      // reference: request by request, to the end of the session
	Refpanic  bool     `json:"refpanic"`
	W         []loopW  `json:"w"` // what Loop wrote per request it executed
	Lerr      bool     `json:"lerr"`
	Lpanic    string   `json:"lpanic"`
	Persist   bool     `json:"persist"`
	Rest      []refRec `json:"rest"` // the inputs after the last line, served by fresh engines from the store
	Restpanic bool     `json:"restpanic"`
	// for replay
	Nfeed int     `json:"nfeed"`
	Pseed string  `json:"pseed"`
	Picks [][]int `json:"picks"`
}

func byteInts(s string) []int {
	r := make([]int, len(s))
	for i := 0; i < len(s); i++ {
		r[i] = int(s[i])
	}
	return r
}

func asciiTrim(s string) string {
	return strings.Trim(s, "\t\n\v\f\r ")
}

// lineReader hands out one line per Read call, so that the number of lines consumed is known at every Write.
type lineReader struct {
	lines  []string
	lastnl bool
	next   int
	full   int // complete lines handed out
	onLine func(j int)
	rest   []byte
}

func (r *lineReader) Read(b []byte) (int, error) {
	if len(r.rest) == 0 {
		if r.next >= len(r.lines) {
			return 0, io.EOF
		}
		ln := r.lines[r.next]
		r.next++
		if r.next < len(r.lines) || r.lastnl {
			ln += "\n"
			r.full++
			if r.onLine != nil {
				r.onLine(r.full)
			}
		}
		r.rest = []byte(ln)
		if len(r.rest) == 0 {
			return 0, io.EOF
		}
	}
	n := copy(b, r.rest)
	r.rest = r.rest[n:]
	return n, nil
}

type tagWriter struct {
	rd *lineReader
	w  map[int][]string
}

func (t *tagWriter) Write(b []byte) (int, error) {
	t.w[t.rd.full] = append(t.w[t.rd.full], string(b))
	return len(b), nil
}

func refOf(ev *reqEvent) refRec {
	return refRec{Cont: ev.Cont, Err: ev.Err, Ferr: ev.Ferr, Noexec: ev.Fnoexec, Out: ev.Out}
}

// loopable: the prefix of the history that can be fed to Loop as lines (no line feed inside a line, and no line whose
// trimming depends on non-ASCII white space, which Loop.tla does not model)
func loopable(inputs []string) int {
	for i, in := range inputs {
		if i == 0 {
			continue
		}
		if strings.Contains(in, "\n") || strings.TrimSpace(in) != asciiTrim(in) {
			return i
		}
	}
	return len(inputs)
}

// serveLoop: raw[0] is the initial value, raw[1:] the lines.  pickFor(j) prepares the external-result schedule of request j
// (0-based) and returns the pick function state through the closures of the caller.
func serveLoop(p *Program, sid string, stKind string, raw []string, lastnl bool, nfeed int, persistIt bool,
	mkpick func() (func(string, int) int, func(j int, in string)), stats *viseStats, null *ndw) loopEvent {
	ev := loopEvent{Ev: "pair", Kind: "loop", Sid: sid, Store: stKind, Inputs: encAll(raw), Extra: []string{}, Lastnl: lastnl, Persist: persistIt,
		A: []refRec{}, W: []loopW{}, Rest: []refRec{}}
	ev.Nlines, ev.Nfeed, ev.Picks = nfeed, nfeed, [][]int{}
	if !lastnl && nfeed > 1 {
		ev.Nlines = nfeed - 1 // a last line without its line feed is never delivered
	}
	refin := make([]string, len(raw))
	for i, r := range raw {
		if i == 0 {
			refin[i] = r
		} else {
			refin[i] = asciiTrim(r)
		}
		ev.Raw = append(ev.Raw, byteInts(r))
		ev.Refin = append(ev.Refin, byteInts(refin[i]))
	}
	// reference: one long-lived engine, request by request
	{
		pick, start := mkpick()
		rec := &sessRec{prog: p, sid: sid + ".LR", out: null, stats: stats}
		h := newHost(p, rec, "L", newStore("mem", sid), pick)
		for j, in := range refin {
			start(j, in)
			q := h.request(in)
			ev.A = append(ev.A, refOf(q))
			if q.Panic != "" || q.Fpanic != "" {
				ev.Refpanic = true
				break
			}
			if !q.Cont || q.Err {
				break
			}
		}
	}
	// the real Loop
	store, cleanup := newStoreC(stKind, sid+"loop")
	defer cleanup()
	lsid := sid + ".LL"
	{
		pick, start := mkpick()
		rec := &sessRec{prog: p, sid: lsid, out: null, stats: stats}
		h := newHost(p, rec, "L", store, pick)
		var en *engine.DefaultEngine
		if persistIt {
			en = engine.NewEngine(h.cfg, h.rs).WithPersister(persist.NewPersister(store))
		} else {
			st := state.NewState(uint32(p.FlagCount))
			ca := cache.NewCache()
			if p.CacheSize > 0 {
				ca = ca.WithCacheSize(uint32(p.CacheSize))
			}
			en = engine.NewEngine(h.cfg, h.rs).WithState(st).WithMemory(ca)
		}
		rd := &lineReader{lines: raw[1:nfeed], lastnl: lastnl, onLine: func(j int) { start(j, refin[j]) }}
		tw := &tagWriter{rd: rd, w: map[int][]string{}}
		start(0, refin[0])
		saved := curSess
		curSess = nil
		done := make(chan struct{})
		go func() {
			defer close(done)
			defer func() {
				if r := recover(); r != nil {
					ev.Lpanic = fmt.Sprint(r)
				}
			}()
			err := engine.Loop(context.Background(), en, rd, tw, []byte(raw[0]))
			ev.Lerr = err != nil
		}()
		select {
		case <-done:
		case <-time.After(20 * time.Second):
			ev.Lpanic = "hang: Loop did not return within 20s"
		}
		curSess = saved
		for i := 0; i <= rd.full; i++ {
			ws := tw.w[i]
			x := loopW{}
			if n := len(ws); n > 0 && ws[n-1] == "\n" {
				x.Nl = true
				ws = ws[:n-1]
			}
			x.Body = enc(strings.Join(ws, ""))
			ev.W = append(ev.W, x)
		}
	}
	// the rest of the history from the store, one fresh engine per request
	if persistIt && ev.Lpanic == "" && !strings.HasPrefix(ev.Lpanic, "hang") {
		pick, start := mkpick()
		rec := &sessRec{prog: p, sid: lsid, out: null, stats: stats}
		h := newHost(p, rec, "P", store, pick)
		// the external-result schedule is positional: bring it to where the Loop left off
		for j := 0; j < ev.Nlines && j < len(refin); j++ {
			start(j, refin[j])
		}
		for j := ev.Nlines; j < len(refin); j++ {
			start(j, refin[j])
			q := h.request(refin[j])
			ev.Rest = append(ev.Rest, refOf(q))
			if q.Panic != "" || q.Fpanic != "" {
				ev.Restpanic = true
				break
			}
			if !q.Cont || q.Err {
				break
			}
		}
	}
	return ev
}

func mkHashPicks(pseed int64) func() (func(string, int) int, func(int, string)) {
	return func() (func(string, int) int, func(int, string)) {
		acc, call, seen, lastOk := 0, 0, false, false
		return func(sym string, n int) int {
				i := hpick(pseed, acc, call, n)
				call++
				if i < 0 {
					i = -i
				}
				return i
			}, func(j int, in string) {
				if seen && lastOk {
					acc++
				}
				seen, lastOk, call = true, inputClass(in) == "ok", 0
			}
	}
}

func mkListPicks(picks [][]int) func() (func(string, int) int, func(int, string)) {
	return func() (func(string, int) int, func(int, string)) {
		var cur []int
		return func(sym string, k int) int {
				if len(cur) == 0 {
					return 0
				}
				i := cur[0]
				cur = cur[1:]
				return i
			}, func(j int, in string) {
				cur = nil
				if j < len(picks) {
					cur = append([]int{}, picks[j]...)
				}
			}
	}
}

// vise-loop-case <program.json> <case.json> <trace-out>: replays one recorded "loop" line (its raw inputs, line count, store and
// external-result schedule)
func cmdViseLoopCase(args []string) error {
	p, err := loadProgram(args[0])
	if err != nil {
		return err
	}
	b, err := os.ReadFile(args[1])
	if err != nil {
		return err
	}
	var c struct {
		Inputs  []string `json:"inputs"`
		Store   string   `json:"store"`
		Lastnl  bool     `json:"lastnl"`
		Nfeed   int      `json:"nfeed"`
		Persist bool     `json:"persist"`
		Pseed   string   `json:"pseed"`
		Picks   [][]int  `json:"picks"`
	}
	if err := json.Unmarshal(b, &c); err != nil {
		return err
	}
	out, err := newNdw(args[2])
	if err != nil {
		return err
	}
	defer out.close()
	null, _ := newNdw(os.DevNull)
	defer null.close()
	state.MaxLevel = 128
	if p.MaxLevel > 0 {
		state.MaxLevel = p.MaxLevel
	}
	p.Engine.First = false
	delete(p.Syms, "_first")
	vm.VerifHook = viseHook
	stats := &viseStats{Pairs: map[string]int{}}
	raw := make([]string, len(c.Inputs))
	for i, x := range c.Inputs {
		raw[i] = decIn(x)
	}
	mk := mkListPicks(c.Picks)
	if c.Pseed != "" {
		var ps int64
		fmt.Sscan(c.Pseed, &ps)
		mk = mkHashPicks(ps)
	}
	ev := serveLoop(p, p.Name+".replay", c.Store, raw, c.Lastnl, c.Nfeed, c.Persist, mk, stats, null)
	ev.Pseed, ev.Picks = c.Pseed, c.Picks
	if ev.Picks == nil {
		ev.Picks = [][]int{}
	}
	out.put(ev)
	summary(map[string]any{"pairs": 1, "events": out.n})
	return nil
}

func init() { register("vise-loop-case", cmdViseLoopCase) }
