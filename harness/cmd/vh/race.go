package main

// Concurrency driver (C19): many sessions served at the same time on different goroutines, each with its own engine,
// state, cache and store handle, over SHARED immutable application data; transcripts are compared with solo runs.
// Built with -race by the orchestrator: the "no data race" half of the property is decided by the Go race detector.

import (
	"bytes"
	"context"
	"fmt"
	"math/rand"
	"os"
	"path/filepath"
	"sync"

	"git.defalsify.org/vise.git/cache"
	fsdb "git.defalsify.org/vise.git/db/fs"
	"git.defalsify.org/vise.git/engine"
	"git.defalsify.org/vise.git/persist"
	"git.defalsify.org/vise.git/resource"
	"git.defalsify.org/vise.git/state"
)

// sharedResource serves one program to every session and hands out the SAME byte slices to all of them.
type sharedResource struct {
	prog  *Program
	code  map[string][]byte
	pseed int64
	req   *int
	call  *int
}

func (r *sharedResource) GetCode(ctx context.Context, sym string) ([]byte, error) {
	c, ok := r.code[sym]
	if !ok {
		return nil, fmt.Errorf("no code for %q", sym)
	}
	return c, nil
}
func (r *sharedResource) GetTemplate(ctx context.Context, sym string) (string, error) {
	if t, ok := r.prog.Templates[sym]; ok {
		return t, nil
	}
	return "N:" + sym, nil
}
func (r *sharedResource) GetMenu(ctx context.Context, sym string) (string, error) { return sym, nil }
func (r *sharedResource) Close(ctx context.Context) error                         { return nil }
func (r *sharedResource) FuncFor(ctx context.Context, sym string) (resource.EntryFunc, error) {
	alts, ok := r.prog.Syms[sym]
	if !ok {
		return nil, fmt.Errorf("unknown function: %s", sym)
	}
	return func(ctx context.Context, nodeSym string, input []byte) (resource.Result, error) {
		i := hpick(r.pseed, *r.req, *r.call, len(alts))
		if i < 0 {
			i = -i
		}
		*r.call++
		d := alts[i%len(alts)]
		if d.Err {
			return resource.Result{}, fmt.Errorf("external function %s fails", sym)
		}
		res := resource.Result{Content: d.content()}
		for _, f := range d.Set {
			res.FlagSet = append(res.FlagSet, uint32(f))
		}
		for _, f := range d.Reset {
			res.FlagReset = append(res.FlagReset, uint32(f))
		}
		return res, nil
	}, nil
}

// serveQuiet runs one history without any recording and returns the transcript.
// mode "L": one long-lived engine; "P": a new engine per request over the session's own memory store; "F": a new engine
// AND a new filesystem store handle per request, all sessions' handles connected to the same data directory fsdir
// (sessions share the directory, as deployed applications do, but no library object).
func serveQuiet(p *Program, code map[string][]byte, sid string, mode string, inputs []string, pseed int64, fsdir ...string) []string {
	ctx := context.Background()
	req, call := 0, 0
	rs := &sharedResource{prog: p, code: code, pseed: pseed, req: &req, call: &call}
	cfg := engine.Config{Root: p.Root, FlagCount: uint32(p.FlagCount), OutputSize: uint32(p.OutputSize), SessionId: sid}
	// every other history is served by an application with a configured default language (a function of the history, so the
	// solo and the concurrent run agree); the language the session ends each request with is part of the transcript
	if pseed%2 == 0 {
		cfg.Language = "nor"
	}
	// every third history with state debugging on (flag names in the engine's log lines: a process-wide registry is consulted)
	debug := pseed%3 == 0
	cfg.StateDebug = debug
	var lst *state.State
	var lpe *persist.Persister
	var out []string
	var en *engine.DefaultEngine
	var store dbLike = newMemStore()
	for _, in := range inputs {
		call = 0
		if mode == "P" || mode == "F" || en == nil {
			en = engine.NewEngine(cfg, rs)
			if pseed%5 == 0 {
				// every fifth application accepts one more input format (engine.AddValidInput, as examples/first does); the
				// engines of all such applications ask for the same format
				en.AddValidInput("^#[0-9]+$")
			}
			if mode == "F" {
				fs := fsdb.NewFsDb()
				if err := fs.Connect(ctx, fsdir[0]); err != nil {
					panic(err)
				}
				store = fs
			}
			if mode == "P" || mode == "F" {
				lpe = persist.NewPersister(store)
				en = en.WithPersister(lpe)
			} else {
				lst = state.NewState(uint32(p.FlagCount))
				if debug {
					lst.UseDebug()
				}
				en = en.WithState(lst).WithMemory(cache.NewCache())
			}
		}
		line := ""
		func() {
			defer func() {
				if r := recover(); r != nil {
					line = fmt.Sprintf("PANIC %v", r)
				}
			}()
			cont, err := en.Exec(ctx, []byte(in))
			w := bytes.NewBuffer(nil)
			if err == nil {
				en.Flush(ctx, w)
			}
			ferr := false
			if mode == "P" || mode == "F" {
				ferr = en.Finish(ctx) != nil
			}
			lg := ""
			if lpe != nil && lpe.GetState() != nil {
				lst = lpe.GetState()
			}
			if lst != nil && lst.Language != nil {
				lg = lst.Language.Code
			}
			line = fmt.Sprintf("%v|%v|%v|%s|%s", cont, err != nil, ferr, lg, w.String())
		}()
		out = append(out, line)
		req++
		if line[:5] == "PANIC" {
			break
		}
	}
	return out
}

func cloneCode(p *Program, spare int) map[string][]byte {
	m := map[string][]byte{}
	for k, v := range p.code {
		c := make([]byte, len(v), len(v)+spare)
		copy(c, v)
		m[k] = c
	}
	return m
}

type raceJob struct {
	p      *Program
	mode   string
	inputs []string
	pseed  int64
	solo   []string
}

// race-run <programs-dir> <workers> <jobs> <spare-bytes>
func cmdRaceRun(args []string) error {
	var workers, njobs, spare int
	fmt.Sscan(args[1], &workers)
	fmt.Sscan(args[2], &njobs)
	fmt.Sscan(args[3], &spare)
	rng := rand.New(rand.NewSource(seed()))
	var progs []*Program
	files, _ := filepath.Glob(filepath.Join(args[0], "*.json"))
	for _, f := range files {
		p, err := loadProgram(f)
		if err != nil {
			return err
		}
		progs = append(progs, p)
	}
	for i := 0; i < 6; i++ {
		g := genProgram(rng, fmt.Sprintf("r%d", i))
		g.MaxLevel = 0
		if i%2 == 0 {
			// a very small catch node (6 bytes, as in examples/http): code this short fits into the spare capacity of
			// whatever buffer the VM appends it to
			g.Nodes["_catch"] = []Instr{{Op: "HALT"}, {Op: "MOVE", A: "^"}}
			g.build()
		}
		progs = append(progs, g)
	}
	state.MaxLevel = 128
	// shared application data: one set of byte slices per program, handed to every session
	shared := map[*Program]map[string][]byte{}
	for _, p := range progs {
		shared[p] = cloneCode(p, spare)
	}
	var jobs []raceJob
	for j := 0; j < njobs; j++ {
		p := progs[rng.Intn(len(progs))]
		n := 2 + rng.Intn(8)
		inputs := []string{""}
		for k := 1; k < n; k++ {
			inputs = append(inputs, p.Inputs[rng.Intn(len(p.Inputs))])
		}
		job := raceJob{p: p, mode: []string{"L", "P", "F"}[rng.Intn(3)], inputs: inputs, pseed: rng.Int63()}
		if job.pseed%5 == 0 {
			// an application with an extra input format gets inputs in that format (and every history some input that fails
			// the built-in pattern, so that the extra formats are consulted)
			job.inputs[1+rng.Intn(len(job.inputs)-1)] = "#7"
		} else if rng.Intn(3) == 0 {
			job.inputs[1+rng.Intn(len(job.inputs)-1)] = "*"
		}
		jobs = append(jobs, job)
	}
	shareddir, err := os.MkdirTemp("", "verif-race-data-")
	if err != nil {
		return err
	}
	defer os.RemoveAll(shareddir)
	var wg sync.WaitGroup
	var mu sync.Mutex
	mism := []map[string]any{}
	nmis := 0
	gots := map[int][][]string{}
	ch := make(chan int)
	// a session id is used once: every serving of a job gets its own id (and so its own record in the shared directory)
	var repmu sync.Mutex
	reps := map[int]int{}
	rep := func(j int) int {
		repmu.Lock()
		defer repmu.Unlock()
		reps[j]++
		return reps[j]
	}
	for w := 0; w < workers; w++ {
		wg.Add(1)
		go func(w int) {
			defer wg.Done()
			for j := range ch {
				job := jobs[j]
				got := serveQuiet(job.p, shared[job.p], fmt.Sprintf("w%d_j%d_%d", w, j, rep(j)), job.mode, job.inputs, job.pseed, shareddir)
				mu.Lock()
				gots[j] = append(gots[j], got)
				mu.Unlock()
			}
		}(w)
	}
	// every job is served several times so that identical sessions overlap in time
	for rep := 0; rep < 3; rep++ {
		for j := range jobs {
			ch <- j
		}
	}
	close(ch)
	wg.Wait()
	// the references: every history served alone, one after another, over PRIVATE, exact-capacity data and a private data
	// directory - AFTER the concurrent phase, so that whatever the library initialises lazily on first use is initialised while
	// sessions run side by side, not by the reference runs
	for j := range jobs {
		job := &jobs[j]
		solodir, err := os.MkdirTemp("", "verif-race-solo-")
		if err != nil {
			return err
		}
		job.solo = serveQuiet(job.p, cloneCode(job.p, 0), "solo", job.mode, job.inputs, job.pseed, solodir)
		os.RemoveAll(solodir)
		for _, got := range gots[j] {
			same := len(got) == len(job.solo)
			for k := 0; same && k < len(got); k++ {
				same = got[k] == job.solo[k]
			}
			if !same {
				nmis++
				if len(mism) < 5 {
					mism = append(mism, map[string]any{"program": job.p.Name, "mode": job.mode, "inputs": encAll(job.inputs), "solo": encAll(job.solo), "concurrent": encAll(got)})
				}
			}
		}
	}
	// the shared data must be what it was
	dirty := []string{}
	for _, p := range progs {
		for k, v := range shared[p] {
			if !bytes.Equal(v, p.code[k]) || (spare > 0 && !bytes.Equal(v[:cap(v)][len(v):], make([]byte, cap(v)-len(v)))) {
				dirty = append(dirty, p.Name+"/"+k)
			}
		}
	}
	summary(map[string]any{"workers": workers, "jobs": njobs, "sessions": 3 * njobs, "programs": len(progs), "spare": spare, "mismatches": nmis, "examples": mism, "shared_data_modified": dirty})
	return nil
}

func init() { register("race-run", cmdRaceRun) }
