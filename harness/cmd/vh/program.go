package main

// Programs as data: the same JSON is read by TLC (model-checking mode of Vise.tla) and by this harness,
// which builds real bytecode from it with vm.NewLine. Also the harness-owned bytecode decoder.

import (
	"encoding/binary"
	"encoding/json"
	"fmt"
	"hash/fnv"
	"os"
	"regexp"
	"sort"
	"strings"

	"git.defalsify.org/vise.git/vm"
)

type Instr struct {
	Op string `json:"op"`
	A  string `json:"a"`
	B  string `json:"b"`
	N  int    `json:"n"`
	M  int    `json:"m"`
	Ac string `json:"ac"` // class of A as a move target: sym | _ | > | < | ^ | . | bad
}

type SymResult struct {
	Len     int    `json:"len"`
	Id      string `json:"id"`
	Set     []int  `json:"set"`
	Reset   []int  `json:"reset"`
	Err     bool   `json:"err"`
	Lang    string `json:"lang"`    // "" no language meaning, "BAD" content is not a language code, else ISO 639-3 code the content resolves to
	Content string `json:"content"` // explicit content (overrides id/len) when non-empty
	Echo    bool   `json:"echo"`    // the result is the client's input as it is (what "store my name" functions do)
}

type Program struct {
	Name       string                 `json:"name"`
	Root       string                 `json:"root"`
	FlagCount  int                    `json:"flagcount"`
	OutputSize int                    `json:"outputsize"`
	CacheSize  int                    `json:"cachesize"`
	Language   string                 `json:"language"`
	MaxLevel   int                    `json:"maxlevel"`
	LangSens   bool                   `json:"langsens"` // external results and templates depend on the context language (as translated content does)
	Engine     EngineOpts             `json:"engine"`   // engine options of the application
	Nodes      map[string][]Instr     `json:"nodes"`
	Templates  map[string]string      `json:"templates"`
	Syms       map[string][]SymResult `json:"syms"`
	Inputs     []string               `json:"inputs"`
	Valid      bool                   `json:"valid,omitempty"` // the application adds the input format customFormat to its engines
	code       map[string][]byte
}

// EngineOpts: engine.DefaultEngine.WithFirst (the function is the symbol "_first" of Syms) and engine.Config.ResetOnEmptyInput
type EngineOpts struct {
	First  bool `json:"first"`
	Rempty bool `json:"rempty"`
}

var opcodes = map[string]uint16{"NOOP": 0, "CATCH": 1, "CROAK": 2, "LOAD": 3, "RELOAD": 4, "MAP": 5, "MOVE": 6, "HALT": 7, "INCMP": 8, "MSINK": 9, "MOUT": 10, "MNEXT": 11, "MPREV": 12}
var opnames = map[uint16]string{}

func init() {
	for k, v := range opcodes {
		opnames[v] = k
	}
}

var symRe = regexp.MustCompile(`^[a-zA-Z0-9][a-zA-Z0-9_]+$`)

// targetClass is the harness's own reading of doc/texinfo (node names and control targets).
func targetClass(t string) string {
	switch t {
	case "_", ">", "<", "^", ".":
		return t
	case "_catch":
		return "sym"
	}
	if symRe.MatchString(t) {
		return "sym"
	}
	return "bad"
}

func numBytes(n int) []byte {
	if n == 0 {
		return []byte{0}
	}
	var b []byte
	for n > 0 {
		b = append([]byte{byte(n & 0xff)}, b...)
		n >>= 8
	}
	return b
}

func (in Instr) bytes(b []byte) []byte {
	op := opcodes[in.Op]
	switch in.Op {
	case "CATCH":
		return vm.NewLine(b, op, []string{in.A}, numBytes(in.N), []uint8{uint8(in.M)})
	case "CROAK":
		return vm.NewLine(b, op, nil, numBytes(in.N), []uint8{uint8(in.M)})
	case "LOAD":
		return vm.NewLine(b, op, []string{in.A}, numBytes(in.N), nil)
	case "RELOAD", "MAP", "MOVE":
		return vm.NewLine(b, op, []string{in.A}, nil, nil)
	case "INCMP", "MOUT", "MNEXT", "MPREV":
		return vm.NewLine(b, op, []string{in.A, in.B}, nil, nil)
	default:
		return vm.NewLine(b, op, nil, nil, nil)
	}
}

func (p *Program) build() {
	p.code = map[string][]byte{}
	for name, ins := range p.Nodes {
		var b []byte
		for i := range ins {
			ins[i].Ac = targetClass(ins[i].A)
			b = ins[i].bytes(b)
		}
		if b == nil {
			b = []byte{}
		}
		// exact capacity: resource slices must not have spare capacity here (aliasing is C19's subject)
		p.code[name] = append(make([]byte, 0, len(b)), b...)
	}
	if p.Root == "" {
		p.Root = "root"
	}
	if p.Templates == nil {
		p.Templates = map[string]string{}
	}
}

func loadProgram(path string) (*Program, error) {
	b, err := os.ReadFile(path)
	if err != nil {
		return nil, err
	}
	var p Program
	if err := json.Unmarshal(b, &p); err != nil {
		return nil, err
	}
	p.build()
	return &p, nil
}

// decode is the harness-owned decoder of pending bytecode (never calls the library's parser).
// ok=false if the bytes are not a sequence of complete instructions.
func decode(b []byte) (out []Instr, ok bool) {
	out = []Instr{}
	defer func() {
		if r := recover(); r != nil {
			ok = false
		}
	}()
	str := func() string { l := int(b[0]); s := string(b[1 : 1+l]); b = b[1+l:]; return s }
	num := func() int {
		l := int(b[0])
		v := 0
		for i := 0; i < l; i++ {
			v = v<<8 | int(b[1+i])
		}
		b = b[1+l:]
		return v
	}
	for len(b) > 0 {
		op := binary.BigEndian.Uint16(b)
		b = b[2:]
		name, known := opnames[op]
		if !known {
			return out, false
		}
		in := Instr{Op: name}
		switch name {
		case "CATCH":
			in.A = str()
			in.N = num()
			in.M = int(b[0])
			b = b[1:]
		case "CROAK":
			in.N = num()
			in.M = int(b[0])
			b = b[1:]
		case "LOAD":
			in.A = str()
			in.N = num()
		case "RELOAD", "MAP", "MOVE":
			in.A = str()
		case "INCMP", "MOUT", "MNEXT", "MPREV":
			in.A = str()
			in.B = str()
		}
		in.Ac = targetClass(in.A)
		out = append(out, in)
	}
	return out, true
}

// tok abstracts any byte string to [id, len] (uniform strings keep their byte as id, others get a short hash).
func tok(s string) vtok {
	if len(s) == 0 {
		return vtok{"", 0}
	}
	id := s[:1]
	if strings.Count(s, id) != len(s) {
		h := fnv.New32a()
		h.Write([]byte(s))
		id = fmt.Sprintf("#%06x", h.Sum32()&0xffffff)
	}
	return vtok{id, len(s)}
}

func (r SymResult) content() string {
	if r.Content != "" {
		return r.Content
	}
	return valueOf(r.Id, r.Len)
}

func sortedKeys[T any](m map[string]T) []string {
	ks := make([]string, 0, len(m))
	for k := range m {
		ks = append(ks, k)
	}
	sort.Strings(ks)
	return ks
}
