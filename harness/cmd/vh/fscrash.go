package main

// Crash-atomicity driver (C12): tiny single-threaded commands that are run under strace by the orchestrator.
//   fs-req  <dir> <session> <input>   one persisted-mode engine request over the filesystem store (Exec, Flush, Finish)
//   fs-load <dir> <session>           load the stored session into fresh objects and print its projection

import (
	"bytes"
	"context"
	"crypto/sha1"
	"encoding/json"
	"fmt"
	"git.defalsify.org/vise.git/db"
	"os"
	"os/signal"
	"runtime"
	"strconv"
	"strings"
	"syscall"

	"git.defalsify.org/vise.git/cache"
	fsdb "git.defalsify.org/vise.git/db/fs"
	"git.defalsify.org/vise.git/engine"
	"git.defalsify.org/vise.git/persist"
	"git.defalsify.org/vise.git/resource"
	"git.defalsify.org/vise.git/state"
)

// a program that descends one level per input "1", stays on "2", and whose nodes load a value of growing size
func crashProgram() *Program {
	p := &Program{Name: "crash", Root: "root", FlagCount: 2, Nodes: map[string][]Instr{}, Templates: map[string]string{}, Syms: map[string][]SymResult{}}
	// a chain of 24 nodes: a session can be more than 16 levels deep (more scopes and symbols than small container limits)
	names := []string{"root", "aa", "bb", "cc", "dd", "ee", "ff", "gg", "hh", "ii", "jj", "kk", "ll", "mm", "nn", "oo", "pp", "qq", "rr", "ss", "tt", "uu", "vv", "ww"}
	for i, n := range names {
		next := names[(i+1)%len(names)]
		if next == "root" {
			next = "."
		}
		sym := "v" + n
		p.Syms[sym] = []SymResult{{Id: string(rune('a' + i)), Len: 40 * (i%8 + 1) * (i%8 + 1), Set: []int{}, Reset: []int{}}}
		// "flip" is re-run on every visit and returns 40 bytes made of the client's input: staying on a node with
		// input 2 or 5 gives consecutive session states whose stored records have EXACTLY the same length
		p.Nodes[n] = []Instr{{Op: "LOAD", A: sym, N: 0}, {Op: "LOAD", A: "flip", N: 0}, {Op: "RELOAD", A: "flip"}, {Op: "HALT"},
			{Op: "INCMP", A: next, B: "1"}, {Op: "INCMP", A: ".", B: "2"}, {Op: "INCMP", A: ".", B: "5"}, {Op: "INCMP", A: "_", B: "0"}}
	}
	p.Nodes["_catch"] = []Instr{{Op: "HALT"}, {Op: "INCMP", A: "_", B: "*"}}
	p.build()
	return p
}

// crashRes serves the crash program; "flip" depends on the client input.
type crashRes struct{ *recResource }

func (r *crashRes) FuncFor(ctx context.Context, sym string) (resource.EntryFunc, error) {
	if sym == "flip" {
		return func(ctx context.Context, nodeSym string, input []byte) (resource.Result, error) {
			c := "z"
			if len(input) > 0 {
				c = string(input[:1])
			}
			return resource.Result{Content: strings.Repeat(c, 40)}, nil
		}, nil
	}
	return r.recResource.FuncFor(ctx, sym)
}

func digest(st *state.State, ca *cache.Cache) string {
	h := sha1.New()
	fmt.Fprint(h, st.ExecPath, st.SizeIdx, st.Flags, st.Code, st.Moves)
	for _, fr := range ca.Cache {
		for _, k := range sortedKeys(fr) {
			fmt.Fprint(h, k, "=", fr[k], ";")
		}
		fmt.Fprint(h, "|")
	}
	return fmt.Sprintf("%x", h.Sum(nil))[:16]
}

type fsResult struct {
	Digest string   `json:"digest"`
	Ok     bool     `json:"ok"`
	Err    string   `json:"err"`
	Cont   bool     `json:"cont"`
	Path   []string `json:"path"`
	Idx    int      `json:"idx"`
	Flags  []int    `json:"flags"`
	Ncode  int      `json:"ncode"`
	Used   int      `json:"used"`
	Frames int      `json:"frames"`
}

func cmdFsReq(args []string) error {
	runtime.GOMAXPROCS(1)
	runtime.LockOSThread()
	ctx := context.Background()
	store := fsdb.NewFsDb()
	if err := store.Connect(ctx, args[0]); err != nil {
		return err
	}
	p := crashProgram()
	rs := &crashRes{&recResource{prog: p}}
	pe := persist.NewPersister(store)
	en := engine.NewEngine(engine.Config{Root: "root", FlagCount: 2, SessionId: args[1]}, rs).WithPersister(pe)
	res := fsResult{Path: []string{}, Flags: []int{}}
	cont, err := en.Exec(ctx, []byte(args[2]))
	res.Cont = cont
	if err != nil {
		res.Err = err.Error()
	} else {
		en.Flush(ctx, bytes.NewBuffer(nil))
	}
	// VERIF_APPDATA=1: the application keeps data of its own in the same store, through the same handle (the documentation
	// allows sharing the persistence store with application data): a write under another data type between Exec and Finish
	if os.Getenv("VERIF_APPDATA") != "" {
		store.SetPrefix(db.DATATYPE_USERDATA)
		if err := store.Put(ctx, []byte("visits"), []byte("seen:"+args[2])); err != nil {
			return err
		}
	}
	// VERIF_FSIZE=<k>: from here on a regular file may not grow beyond / be written past k bytes (RLIMIT_FSIZE): the kernel
	// accepts a partial write and the process then dies of SIGXFSZ - a real process death in the middle of a write
	if k, err := strconv.Atoi(os.Getenv("VERIF_FSIZE")); err == nil && k > 0 {
		signal.Reset(syscall.SIGXFSZ)
		lim := syscall.Rlimit{Cur: uint64(k), Max: uint64(k)}
		if err := syscall.Setrlimit(syscall.RLIMIT_FSIZE, &lim); err != nil {
			return err
		}
	}
	if ferr := en.Finish(ctx); ferr != nil {
		res.Err += " finish: " + ferr.Error()
	}
	res.Ok = res.Err == ""
	if st := pe.GetState(); st != nil {
		res.Path, res.Idx, res.Flags, res.Ncode = st.ExecPath, int(st.SizeIdx), flagsOf(st), len(st.Code)
	}
	b, _ := json.Marshal(res)
	fmt.Println("RESULT " + string(b))
	return nil
}

// fs-two <dir> <sidA> <sidB> <input>: one process serves one request of session A and then one of session B, each with its
// own store handle, engine and persister on the same data directory; an openat of "__marker__" separates the two saves in
// the strace log.
func cmdFsTwo(args []string) error {
	runtime.GOMAXPROCS(1)
	runtime.LockOSThread()
	ctx := context.Background()
	for i, sid := range []string{args[1], args[2]} {
		if i == 1 {
			os.Open(args[0] + "/__marker__")
		}
		store := fsdb.NewFsDb()
		if err := store.Connect(ctx, args[0]); err != nil {
			return err
		}
		p := crashProgram()
		rs := &crashRes{&recResource{prog: p}}
		pe := persist.NewPersister(store)
		en := engine.NewEngine(engine.Config{Root: "root", FlagCount: 2, SessionId: sid}, rs).WithPersister(pe)
		if _, err := en.Exec(ctx, []byte(args[3])); err == nil {
			en.Flush(ctx, bytes.NewBuffer(nil))
		}
		if err := en.Finish(ctx); err != nil {
			return err
		}
	}
	fmt.Println("RESULT {}")
	return nil
}

func cmdFsLoad(args []string) error {
	runtime.GOMAXPROCS(1)
	ctx := context.Background()
	store := fsdb.NewFsDb()
	if err := store.Connect(ctx, args[0]); err != nil {
		return err
	}
	pe := persist.NewPersister(store).WithContent(state.NewState(2), cache.NewCache())
	res := fsResult{Path: []string{}, Flags: []int{}}
	err := pe.Load(args[1])
	if err != nil {
		res.Err = err.Error()
		if strings.Contains(res.Err, "not found") {
			res.Err = "notfound: " + res.Err
		}
	} else {
		st := pe.GetState()
		res.Ok = true
		res.Path, res.Idx, res.Flags, res.Ncode = append([]string{}, st.ExecPath...), int(st.SizeIdx), flagsOf(st), len(st.Code)
		res.Used, res.Frames = int(pe.Memory.CacheUseSize), len(pe.Memory.Cache)
		res.Digest = digest(st, pe.Memory)
	}
	b, _ := json.Marshal(res)
	fmt.Println("RESULT " + string(b))
	return nil
}

func init() {
	register("fs-req", cmdFsReq)
	register("fs-two", cmdFsTwo)
	register("fs-load", cmdFsLoad)
}
