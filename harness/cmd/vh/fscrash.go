package main

// Crash-atomicity driver (C12): tiny single-threaded commands that are run under strace by the orchestrator.
//   fs-req  <dir> <session> <input>   one persisted-mode engine request over the filesystem store (Exec, Flush, Finish)
//   fs-load <dir> <session>           load the stored session into fresh objects and print its projection

import (
	"bytes"
	"context"
	"encoding/json"
	"fmt"
	"runtime"
	"strings"

	"git.defalsify.org/vise.git/cache"
	fsdb "git.defalsify.org/vise.git/db/fs"
	"git.defalsify.org/vise.git/engine"
	"git.defalsify.org/vise.git/persist"
	"git.defalsify.org/vise.git/state"
)

// a program that descends one level per input "1", stays on "2", and whose nodes load a value of growing size
func crashProgram() *Program {
	p := &Program{Name: "crash", Root: "root", FlagCount: 2, Nodes: map[string][]Instr{}, Templates: map[string]string{}, Syms: map[string][]SymResult{}}
	names := []string{"root", "aa", "bb", "cc", "dd", "ee", "ff", "gg"}
	for i, n := range names {
		next := names[(i+1)%len(names)]
		if next == "root" {
			next = "."
		}
		sym := "v" + n
		p.Syms[sym] = []SymResult{{Id: string(rune('a' + i)), Len: 40 * (i + 1) * (i + 1), Set: []int{}, Reset: []int{}}}
		p.Nodes[n] = []Instr{{Op: "LOAD", A: sym, N: 0}, {Op: "HALT"}, {Op: "INCMP", A: next, B: "1"}, {Op: "INCMP", A: ".", B: "2"}, {Op: "INCMP", A: "_", B: "0"}}
	}
	p.Nodes["_catch"] = []Instr{{Op: "HALT"}, {Op: "INCMP", A: "_", B: "*"}}
	p.build()
	return p
}

type fsResult struct {
	Ok     bool     `json:"ok"`
	Err    string   `json:"err"`
	Cont   bool     `json:"cont"`
	Path   []string `json:"path"`
	Idx    int      `json:"idx"`
	Flags  []int    `json:"flags"`
	Ncode  int      `json:"ncode"`
	Used   int      `json:"used"`
	Frames int      `json:"frames"`
}

func cmdFsReq(args []string) error {
	runtime.GOMAXPROCS(1)
	runtime.LockOSThread()
	ctx := context.Background()
	store := fsdb.NewFsDb()
	if err := store.Connect(ctx, args[0]); err != nil {
		return err
	}
	p := crashProgram()
	rs := &recResource{prog: p}
	pe := persist.NewPersister(store)
	en := engine.NewEngine(engine.Config{Root: "root", FlagCount: 2, SessionId: args[1]}, rs).WithPersister(pe)
	res := fsResult{Path: []string{}, Flags: []int{}}
	cont, err := en.Exec(ctx, []byte(args[2]))
	res.Cont = cont
	if err != nil {
		res.Err = err.Error()
	} else {
		en.Flush(ctx, bytes.NewBuffer(nil))
	}
	if ferr := en.Finish(ctx); ferr != nil {
		res.Err += " finish: " + ferr.Error()
	}
	res.Ok = res.Err == ""
	if st := pe.GetState(); st != nil {
		res.Path, res.Idx, res.Flags, res.Ncode = st.ExecPath, int(st.SizeIdx), flagsOf(st), len(st.Code)
	}
	b, _ := json.Marshal(res)
	fmt.Println("RESULT " + string(b))
	return nil
}

func cmdFsLoad(args []string) error {
	runtime.GOMAXPROCS(1)
	ctx := context.Background()
	store := fsdb.NewFsDb()
	if err := store.Connect(ctx, args[0]); err != nil {
		return err
	}
	pe := persist.NewPersister(store).WithContent(state.NewState(2), cache.NewCache())
	res := fsResult{Path: []string{}, Flags: []int{}}
	err := pe.Load(args[1])
	if err != nil {
		res.Err = err.Error()
		if strings.Contains(res.Err, "not found") {
			res.Err = "notfound: " + res.Err
		}
	} else {
		st := pe.GetState()
		res.Ok = true
		res.Path, res.Idx, res.Flags, res.Ncode = append([]string{}, st.ExecPath...), int(st.SizeIdx), flagsOf(st), len(st.Code)
		res.Used, res.Frames = int(pe.Memory.CacheUseSize), len(pe.Memory.Cache)
	}
	b, _ := json.Marshal(res)
	fmt.Println("RESULT " + string(b))
	return nil
}

func init() {
	register("fs-req", cmdFsReq)
	register("fs-load", cmdFsLoad)
}
