package main

// Storage backends the harness can run here: memory, filesystem (temp dir), Postgres driver over the in-process fake.

import (
	"context"
	"os"

	fsdb "git.defalsify.org/vise.git/db/fs"
)

func newStore(kind string, tag string) dbLike {
	s, _ := newStoreC(kind, tag)
	return s
}

// newStoreC returns a connected store and its cleanup function.
func newStoreC(kind string, tag string) (dbLike, func()) {
	ctx := context.Background()
	switch kind {
	case "fs":
		dir, err := os.MkdirTemp("", "verif-fs-")
		if err != nil {
			panic(err)
		}
		s := fsdb.NewFsDb()
		if err := s.Connect(ctx, dir); err != nil {
			panic(err)
		}
		return s, func() { os.RemoveAll(dir) }
	case "pg":
		return newFakePgStore(), func() {}
	default:
		return newMemStore(), func() {}
	}
}
