package main

// Engine-level session separation (C11): sessions whose ids differ in one punctuation character, in letter case or in
// surrounding white space are different sessions. Each is served through per-request engines and persisters over ONE
// filesystem directory, one session after the other; its transcript must be the one it has when it is alone in a directory.

import (
	"fmt"
	"math/rand"
	"os"
	"path/filepath"
)

type sessIdsEvent struct {
	Ev     string   `json:"ev"`
	Sid    string   `json:"sid"`
	Prog   string   `json:"prog"`
	Inputs []string `json:"inputs"`
	A      []string `json:"a"` // alone
	B      []string `json:"b"` // after the other sessions of the family, same directory
}

// sess-ids <programs-dir> <trace-out>
func cmdSessIds(args []string) error {
	out, err := newNdw(args[1])
	if err != nil {
		return err
	}
	defer out.close()
	rng := rand.New(rand.NewSource(seed()))
	families := [][]string{
		{"alice", "alice ", " alice", "alice\n", "alice\t", "Alice", "alice  "},
		{"a:b", "a_b", "a*b", "a?b", "a|b", "a<b", "a>b", "a\"b", "a\\b", "a b", "a-b", "a+b", "a%b", "a#b"},
		{"254700000001", "+254700000001", "254700000001 ", "0254700000001", "2547000000010"},
	}
	n := 0
	for _, name := range []string{"nav", "scope"} {
		p, err := loadProgram(filepath.Join(args[0], name+".json"))
		if err != nil {
			return err
		}
		code := cloneCode(p, 0)
		for _, fam := range families {
			shared, err := os.MkdirTemp("", "verif-sessids-")
			if err != nil {
				return err
			}
			for _, sid := range fam {
				inputs := []string{""}
				for k, m := 0, 2+rng.Intn(4); k < m; k++ {
					inputs = append(inputs, p.Inputs[rng.Intn(len(p.Inputs))])
				}
				pseed := rng.Int63()
				alone, err := os.MkdirTemp("", "verif-sessids-alone-")
				if err != nil {
					return err
				}
				a := serveQuiet(p, code, sid, "F", inputs, pseed, alone)
				os.RemoveAll(alone)
				b := serveQuiet(p, code, sid, "F", inputs, pseed, shared)
				out.put(sessIdsEvent{Ev: "sessids", Sid: enc(sid), Prog: name, Inputs: encAll(inputs), A: encAll(a), B: encAll(b)})
				n++
			}
			os.RemoveAll(shared)
		}
	}
	summary(map[string]any{"sessions": n, "events": out.n, "families": fmt.Sprint(len(families))})
	return nil
}

func init() { register("sess-ids", cmdSessIds) }
