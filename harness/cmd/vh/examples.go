package main

// The repository's example applications (examples/*/*.vis), assembled by the real assembler, with generic stub
// functions for their LOAD symbols: additional real workloads for the VM / engine family (C08 in particular).

import (
	"bytes"
	"fmt"
	"math/rand"
	"os"
	"path/filepath"
	"strings"

	"git.defalsify.org/vise.git/asm"
	"git.defalsify.org/vise.git/state"
	"git.defalsify.org/vise.git/vm"
)

func loadExample(dir string, rng *rand.Rand) (*Program, error) {
	files, _ := filepath.Glob(filepath.Join(dir, "*.vis"))
	if len(files) == 0 {
		return nil, fmt.Errorf("no .vis files in %s", dir)
	}
	p := &Program{Name: "ex_" + filepath.Base(dir), Root: "root", FlagCount: 12, Nodes: map[string][]Instr{}, Templates: map[string]string{}, Syms: map[string][]SymResult{}}
	p.code = map[string][]byte{}
	inputs := map[string]bool{"": true, "9": true, "0": true, "1": true}
	for _, f := range files {
		node := strings.TrimSuffix(filepath.Base(f), ".vis")
		src, err := os.ReadFile(f)
		if err != nil {
			return nil, err
		}
		w := bytes.NewBuffer(nil)
		if _, err := asm.Parse(string(src), w); err != nil {
			return nil, fmt.Errorf("%s: %v", f, err)
		}
		code := append(make([]byte, 0, w.Len()), w.Bytes()...)
		ins, ok := decode(code)
		if !ok {
			return nil, fmt.Errorf("%s: assembled code does not decode", f)
		}
		p.code[node] = code
		p.Nodes[node] = ins
		if t, err := os.ReadFile(filepath.Join(dir, node)); err == nil {
			p.Templates[node] = string(t)
		}
		for _, in := range ins {
			switch in.Op {
			case "LOAD", "RELOAD":
				if _, have := p.Syms[in.A]; !have {
					alts := []SymResult{{Id: "v", Len: 1 + rng.Intn(6), Set: []int{}, Reset: []int{}}, {Id: "w", Len: 0, Set: []int{}, Reset: []int{}}}
					if in.N == 0 {
						alts = append(alts, SymResult{Content: "one\ntwo\n\nthree and four\nfive", Set: []int{}, Reset: []int{}})
					}
					alts = append(alts, SymResult{Id: "f", Len: 2, Set: []int{8 + rng.Intn(12)}, Reset: []int{8 + rng.Intn(12)}})
					p.Syms[in.A] = alts
				}
			case "INCMP":
				if in.B != "*" {
					inputs[in.B] = true
				}
			}
		}
	}
	if _, ok := p.Nodes["root"]; !ok {
		return nil, fmt.Errorf("%s: no root node", dir)
	}
	if _, ok := p.Nodes["_catch"]; !ok {
		p.Nodes["_catch"] = []Instr{{Op: "HALT"}, {Op: "INCMP", A: "_", B: "*"}}
		var b []byte
		for i := range p.Nodes["_catch"] {
			p.Nodes["_catch"][i].Ac = targetClass(p.Nodes["_catch"][i].A)
			b = p.Nodes["_catch"][i].bytes(b)
		}
		p.code["_catch"] = b
	}
	p.Inputs = sortedKeys(inputs)
	return p, nil
}

// vise-examples <examples-dir> <trace-out> <sessions-per-app> <max-requests> <mode L|P|LP>
func cmdViseExamples(args []string) error {
	out, err := newNdw(args[1])
	if err != nil {
		return err
	}
	defer out.close()
	var nsess, maxreq int
	fmt.Sscan(args[2], &nsess)
	fmt.Sscan(args[3], &maxreq)
	mode := args[4]
	rng := rand.New(rand.NewSource(seed()))
	vm.VerifHook = viseHook
	state.MaxLevel = 128
	stats := &viseStats{Pairs: map[string]int{}}
	dirs, _ := filepath.Glob(filepath.Join(args[0], "*"))
	var loaded, skipped []string
	for _, d := range dirs {
		p, err := loadExample(d, rng)
		if err != nil {
			skipped = append(skipped, filepath.Base(d))
			continue
		}
		loaded = append(loaded, p.Name)
		out.put(map[string]any{"ev": "prog", "prog": p})
		for si := 0; si < nsess; si++ {
			m := mode
			if mode == "LP" {
				m = []string{"L", "P"}[si%2]
			}
			rec := &sessRec{prog: p, sid: fmt.Sprintf("%s.s%d", p.Name, si), out: out, stats: stats}
			prng := rand.New(rand.NewSource(rng.Int63()))
			h := newHost(p, rec, m, newMemStore(), func(sym string, n int) int { return prng.Intn(n) })
			stats.Sessions++
			in := ""
			nreq := 1 + rng.Intn(maxreq)
			for j := 0; j < nreq; j++ {
				ev := h.request(in)
				if ev.Panic != "" {
					break
				}
				if m == "L" && (!ev.Cont || (ev.Err && ev.Incls == "ok")) {
					nreq = j + 2
				}
				in = pickInput(rng, p)
			}
		}
	}
	summary(map[string]any{"apps": loaded, "skipped": skipped, "sessions": stats.Sessions, "requests": stats.Requests, "iterations": stats.Iterations,
		"panics": stats.Panics, "distinct_pairs": len(stats.Pairs), "events": out.n})
	return nil
}

func init() { register("vise-examples", cmdViseExamples) }
