package main

// Cache driver (C09, also used by C05): executes operation sequences on the real cache.Cache and
// records one ndjson line per operation with the projected pre- and post-state.

import (
	"encoding/json"
	"fmt"
	"math/rand"
	"os"
	"sort"
	"strings"
	"sync"
	"unicode/utf8"

	"git.defalsify.org/vise.git/cache"
)

type vtok struct {
	Id  string `json:"id"`
	Len int    `json:"len"`
}

type kvv struct {
	K   string `json:"k"`
	Id  string `json:"id"`
	Len int    `json:"len"`
}

type kvi struct {
	K string `json:"k"`
	V int    `json:"v"`
}

type cacheSnap struct {
	Frames [][]kvv `json:"frames"`
	Sizes  []kvi   `json:"sizes"`
	Used   int     `json:"used"`
	Cap    int     `json:"cap"`
	Last   vtok    `json:"last"`
	Badutf bool    `json:"badutf"` // some cached value is not valid UTF-8
}

type cacheOp struct {
	Op    string `json:"op"`
	K     string `json:"k"`
	Id    string `json:"id"`
	Len   int    `json:"len"`
	Limit int    `json:"limit"`
}

type cacheEvent struct {
	Ev    string    `json:"ev"`
	First bool      `json:"first"`
	O     cacheOp   `json:"o"`
	Ok    bool      `json:"ok"`
	Val   vtok      `json:"val"`
	Panic string    `json:"panic"`
	Pre   cacheSnap `json:"pre"`
	Post  cacheSnap `json:"post"`
}

func tokenOf(s string) vtok { return tok(s) }

// (the memo is the harness's own shared state: guarded, so that sessions served side by side race only on what the LIBRARY shares)
var valCache = map[string]string{}
var valCacheMu sync.Mutex

func valueOf(id string, n int) string {
	if n == 0 {
		return ""
	}
	k := fmt.Sprintf("%s/%d", id, n)
	valCacheMu.Lock()
	defer valCacheMu.Unlock()
	v, ok := valCache[k]
	if !ok {
		v = strings.Repeat(id, n)
		valCache[k] = v
	}
	return v
}

func snapCache(ca *cache.Cache) cacheSnap {
	s := cacheSnap{Frames: [][]kvv{}, Sizes: []kvi{}, Used: int(ca.CacheUseSize), Cap: int(ca.CacheSize), Last: tokenOf(ca.LastValue)}
	for _, fr := range ca.Cache {
		row := []kvv{}
		for k, v := range fr {
			if !utf8.ValidString(v) {
				s.Badutf = true
			}
			t := tokenOf(v)
			row = append(row, kvv{k, t.Id, t.Len})
		}
		sort.Slice(row, func(i, j int) bool { return row[i].K < row[j].K })
		s.Frames = append(s.Frames, row)
	}
	for k, v := range ca.Sizes {
		s.Sizes = append(s.Sizes, kvi{k, int(v)})
	}
	sort.Slice(s.Sizes, func(i, j int) bool { return s.Sizes[i].K < s.Sizes[j].K })
	return s
}

func applyCacheOp(ca *cache.Cache, o cacheOp) (ok bool, val vtok, pan string) {
	defer func() {
		if r := recover(); r != nil {
			pan = fmt.Sprint(r)
			ok = false
		}
	}()
	var err error
	switch o.Op {
	case "add":
		err = ca.Add(o.K, valueOf(o.Id, o.Len), uint16(o.Limit))
	case "update":
		err = ca.Update(o.K, valueOf(o.Id, o.Len))
	case "get":
		var v string
		v, err = ca.Get(o.K)
		val = tokenOf(v)
	case "push":
		err = ca.Push()
	case "pop":
		err = ca.Pop()
	case "reset":
		ca.Reset()
	case "last":
		val = tokenOf(ca.Last())
	default:
		panic("unknown cache op " + o.Op)
	}
	return err == nil, val, ""
}

type mbtCacheStep struct {
	O      cacheOp `json:"o"`
	Ok     bool    `json:"ok"`
	Used   int     `json:"used"`
	Levels int     `json:"levels"`
}

// cache-mbt <behaviours.ndjson> <trace-out.ndjson>
// Each input line is one TLC behaviour (list of steps, the first being "new" with limit=capacity).
// The behaviour is executed on a fresh cache; only its LAST step is recorded (every prefix is itself a behaviour).
func cmdCacheMbt(args []string) error {
	out, err := newNdw(args[1])
	if err != nil {
		return err
	}
	defer out.close()
	nb, drift := 0, 0
	var driftEx []string
	err = eachLine(args[0], func(b []byte) error {
		var steps []mbtCacheStep
		if err := json.Unmarshal(b, &steps); err != nil {
			return err
		}
		nb++
		ca := cache.NewCache().WithCacheSize(uint32(steps[0].O.Limit))
		for i, st := range steps[1:] {
			last := i == len(steps)-2
			var pre cacheSnap
			if last {
				pre = snapCache(ca)
			}
			ok, val, pan := applyCacheOp(ca, st.O)
			if last {
				post := snapCache(ca)
				out.put(cacheEvent{Ev: "op", First: true, O: st.O, Ok: ok, Val: val, Panic: pan, Pre: pre, Post: post})
				if ok != st.Ok || post.Used != st.Used || len(post.Frames) != st.Levels {
					drift++
					if len(driftEx) < 5 {
						driftEx = append(driftEx, string(b))
					}
				}
			}
		}
		return nil
	})
	summary(map[string]any{"behaviours": nb, "events": out.n, "model_mismatch": drift, "mismatch_examples": driftEx})
	return err
}

// cache-random <trace-out.ndjson> <sequences> <maxlen>
func cmdCacheRandom(args []string) error {
	out, err := newNdw(args[0])
	if err != nil {
		return err
	}
	defer out.close()
	var nseq, maxlen int
	fmt.Sscan(args[1], &nseq)
	fmt.Sscan(args[2], &maxlen)
	rng := rand.New(rand.NewSource(seed()))
	keys := []string{"a", "b", "c", "d", "e", "f"}
	ids := []string{"x", "y", "z"}
	lens := []int{0, 0, 1, 2, 3, 5, 8, 13, 100, 255, 256, 1000, 65534, 65535, 65536, 65537, 65541, 70000}
	limits := []int{0, 0, 1, 2, 5, 10, 100, 255, 256, 1000, 65535}
	caps := []int{0, 0, 1, 6, 20, 300, 1000, 65536, 70000, 140000}
	kinds := map[string]bool{}
	for s := 0; s < nseq; s++ {
		ca := cache.NewCache().WithCacheSize(uint32(caps[rng.Intn(len(caps))]))
		n := 1 + rng.Intn(maxlen)
		nk := 1 + rng.Intn(len(keys))
		for i := 0; i < n; i++ {
			var o cacheOp
			pickLen := func() int {
				if rng.Intn(4) == 0 {
					return rng.Intn(70001)
				}
				return lens[rng.Intn(len(lens))]
			}
			switch r := rng.Intn(100); {
			case r < 30:
				o = cacheOp{Op: "add", K: keys[rng.Intn(nk)], Id: ids[rng.Intn(len(ids))], Len: pickLen(), Limit: limits[rng.Intn(len(limits))]}
				if rng.Intn(5) == 0 {
					o.Limit = rng.Intn(65536)
				}
			case r < 55:
				o = cacheOp{Op: "update", K: keys[rng.Intn(nk)], Id: ids[rng.Intn(len(ids))], Len: pickLen()}
			case r < 65:
				o = cacheOp{Op: "get", K: keys[rng.Intn(nk)]}
			case r < 78:
				o = cacheOp{Op: "push"}
			case r < 90:
				o = cacheOp{Op: "pop"}
			case r < 95:
				o = cacheOp{Op: "reset"}
			default:
				o = cacheOp{Op: "last"}
			}
			pre := snapCache(ca)
			ok, val, pan := applyCacheOp(ca, o)
			post := snapCache(ca)
			out.put(cacheEvent{Ev: "op", First: i == 0, O: o, Ok: ok, Val: val, Panic: pan, Pre: pre, Post: post})
			kinds[fmt.Sprintf("%s/%v", o.Op, ok)] = true
		}
	}
	summary(map[string]any{"sequences": nseq, "events": out.n, "distinct_op_outcome": len(kinds)})
	return nil
}

// cache-replay <event.json> <trace-out.ndjson>: rebuild the logged pre-state, apply the logged operation again.
// cacheFrom builds a real cache directly in a given state (all its fields are exported: it is what Load does).
func cacheFrom(pre cacheSnap) *cache.Cache {
	ca := cache.NewCache().WithCacheSize(uint32(pre.Cap))
	ca.Cache = nil
	for _, fr := range pre.Frames {
		m := map[string]string{}
		for _, e := range fr {
			m[e.K] = valueOf(e.Id, e.Len)
		}
		ca.Cache = append(ca.Cache, m)
	}
	for _, e := range pre.Sizes {
		ca.Sizes[e.K] = uint16(e.V)
	}
	ca.CacheUseSize = uint32(pre.Used)
	ca.LastValue = valueOf(pre.Last.Id, pre.Last.Len)
	return ca
}

// cache-steps <steps.ndjson> <trace-out>: every line {pre, o} is one step taken from an ARBITRARY consistent cache
// state (the inductive-step universe enumerated by TLC from CacheInd.tla), executed on a real cache built in that state.
func cmdCacheSteps(args []string) error {
	out, err := newNdw(args[1])
	if err != nil {
		return err
	}
	defer out.close()
	n := 0
	err = eachLine(args[0], func(line []byte) error {
		var ev cacheEvent
		if err := json.Unmarshal(line, &ev); err != nil {
			return err
		}
		ca := cacheFrom(ev.Pre)
		pre := snapCache(ca)
		ok, val, pan := applyCacheOp(ca, ev.O)
		out.put(cacheEvent{Ev: "op", First: true, O: ev.O, Ok: ok, Val: val, Panic: pan, Pre: pre, Post: snapCache(ca)})
		n++
		return nil
	})
	summary(map[string]any{"steps": n})
	return err
}

func cmdCacheReplay(args []string) error {
	b, err := os.ReadFile(args[0])
	if err != nil {
		return err
	}
	var ev cacheEvent
	if err := json.Unmarshal(b, &ev); err != nil {
		return err
	}
	ca := cacheFrom(ev.Pre)
	out, err := newNdw(args[1])
	if err != nil {
		return err
	}
	defer out.close()
	pre := snapCache(ca)
	ok, val, pan := applyCacheOp(ca, ev.O)
	out.put(cacheEvent{Ev: "op", First: true, O: ev.O, Ok: ok, Val: val, Panic: pan, Pre: pre, Post: snapCache(ca)})
	return nil
}

func init() {
	register("cache-replay", cmdCacheReplay)
	register("cache-steps", cmdCacheSteps)
	register("cache-mbt", cmdCacheMbt)
	register("cache-random", cmdCacheRandom)
}
