package main

// Renderer driver (C01, C02): renders every page index of a configuration with the real render.Page
// (template + sink content + menu + browse entries under an output size) and records the family of pages.

import (
	"context"
	"encoding/json"
	"fmt"
	"math/rand"
	"strings"

	"git.defalsify.org/vise.git/cache"
	"git.defalsify.org/vise.git/render"
	"git.defalsify.org/vise.git/resource"
)

type renderCfg struct {
	Size    int   `json:"size"`
	Tpl     int   `json:"tpl"`     // static bytes before the sink (text + newline)
	Menu    int   `json:"menu"`    // bytes of the ordinary menu (one item), 0 = none
	NextLen int   `json:"nextLen"` // bytes of the next entry, 0 = not defined
	PrevLen int   `json:"prevLen"`
	Rows    []int `json:"rows"`
	Msink   bool  `json:"msink"`
	// components of Tpl (Tpl = TplStatic + ValLen + (ErrLen > 0 ? ErrLen+1 : 0)); all zero = Tpl is plain template text
	TplStatic int  `json:"tplstatic"`
	ErrLen    int  `json:"errlen"`
	ValLen    int  `json:"vallen"`
	Utf       bool `json:"utf"` // contents made of two-byte UTF-8 characters (sizes are BYTES)
}

type renderCase struct {
	Cfg    renderCfg `json:"cfg"`
	Maxidx int       `json:"maxidx"`
}

type pageRec struct {
	Kind     string   `json:"kind"` // ok | err | panic
	Why      string   `json:"why"`
	Len      int      `json:"len"`
	Rows     []string `json:"rows"` // sink region of the page, split into lines
	Next     bool     `json:"next"`
	Prev     bool     `json:"prev"`
	StaticOk bool     `json:"staticok"` // static text and ordinary menu present
	Out      string   `json:"out"`
}

type renderEvent struct {
	Ev    string    `json:"ev"`
	Cfg   renderCfg `json:"cfg"`
	Rows  []string  `json:"rows"`
	Pages []pageRec `json:"pages"`
	// bytes of the one page that shows everything (static part, all rows, ordinary menu) without browse entries - computed by
	// the recorder from the strings it made, not by the library
	OnePage int `json:"onepage"`
}

type simpleRes struct {
	resource.MenuResource
	tpl string
}

func entry(n int, sel string, utf bool) (string, string) {
	// a menu line "sel:title" of exactly n bytes (with utf: the title in two-byte characters)
	t := n - len(sel) - 1
	if t < 1 {
		t = 1
	}
	if utf {
		return sel, strings.Repeat("\u00b5", t/2) + strings.Repeat("m", t%2)
	}
	return sel, strings.Repeat("m", t)
}

func renderFamily(c renderCfg, maxidx int) renderEvent {
	rows := make([]string, len(c.Rows))
	for i, l := range c.Rows {
		rows[i] = strings.Repeat(string(rune('a'+i%26)), l)
		if c.Utf && !c.Msink {
			rows[i] = strings.Repeat(string(rune(0xe0+i%26)), l/2) + strings.Repeat("x", l%2)
		}
		if c.Msink {
			// the menu is the sink: a row is the menu line "<sel>:<title>" of l bytes (l >= 3)
			sel := string(rune('a' + i%26))
			rows[i] = sel + ":" + strings.Repeat(sel, l-2)
		}
	}
	content := strings.Join(rows, "\n")
	ts := c.TplStatic
	if ts == 0 {
		ts = c.Tpl
	}
	T := func(n int) string {
		if c.Utf {
			return strings.Repeat("\u00d8", n/2) + strings.Repeat("T", n%2)
		}
		return strings.Repeat("T", n)
	}
	val := strings.Repeat("V", c.ValLen)
	errText := strings.Repeat("E", c.ErrLen)
	tpl := T(ts-1) + "\n{{.data}}"
	static := T(ts-1) + "\n"
	if c.Msink {
		// no sink symbol: the template is plain text, the renderer appends "\n{{._menu}}"
		tpl = T(ts)
		static = T(ts) + "\n"
	}
	if c.ValLen > 0 {
		tpl = T(ts-1) + "{{.val}}\n{{.data}}"
		static = T(ts-1) + val + "\n"
	}
	if c.ErrLen > 0 {
		static = errText + "\n" + static
	}
	nextSel, nextTitle := entry(c.NextLen, "11", c.Utf)
	prevSel, prevTitle := entry(c.PrevLen, "22", c.Utf)
	ordSel, ordTitle := entry(c.Menu, "0", c.Utf)
	ev := renderEvent{Ev: "render", Cfg: c, Rows: rows}
	ev.OnePage = len(static) + len(content)
	if c.Menu > 0 && !c.Msink {
		ev.OnePage += 1 + len(ordSel) + 1 + len(ordTitle)
	}
	for idx := 0; idx <= maxidx; idx++ {
		var out string
		var rerr error
		pn := ""
		func() {
			defer func() {
				if r := recover(); r != nil {
					pn = fmt.Sprint(r)
				}
			}()
			ca := cache.NewCache()
			if !c.Msink {
				ca.Add("data", content, 0)
			}
			rs := resource.NewMenuResource()
			rs.WithTemplateGetter(func(ctx context.Context, s string) (string, error) { return tpl, nil })
			rs.WithMenuGetter(func(ctx context.Context, s string) (string, error) { return s, nil })
			mn := render.NewMenu()
			if c.NextLen > 0 || c.PrevLen > 0 {
				mn = mn.WithBrowseConfig(render.BrowseConfig{NextAvailable: c.NextLen > 0, NextSelector: nextSel, NextTitle: nextTitle,
					PreviousAvailable: c.PrevLen > 0, PreviousSelector: prevSel, PreviousTitle: prevTitle})
			}
			if c.Menu > 0 && !c.Msink {
				mn.Put(ordSel, ordTitle)
			}
			if c.Msink {
				for _, r := range rows {
					mn.Put(r[:1], r[2:])
				}
				bc := mn.GetBrowseConfig()
				mn = mn.WithSink().WithBrowseConfig(bc).WithPages() // as vm.runMSink does
			}
			szr := render.NewSizer(uint32(c.Size))
			pg := render.NewPage(ca, rs).WithMenu(mn).WithSizer(szr)
			if !c.Msink {
				if err := pg.Map("data"); err != nil {
					panic(err)
				}
			}
			if c.ValLen > 0 {
				ca.Add("val", val, uint16(c.ValLen+2))
				if err := pg.Map("val"); err != nil {
					panic(err)
				}
			}
			if c.ErrLen > 0 {
				pg = pg.WithError(fmt.Errorf("%s", errText))
			}
			out, rerr = pg.Render(context.Background(), "node", uint16(idx))
		}()
		p := pageRec{Kind: "ok", Rows: []string{}, Out: out}
		switch {
		case pn != "":
			p.Kind, p.Why = "panic", pn
		case rerr != nil:
			p.Kind, p.Why = "err", rerr.Error()
		default:
			p.Len = len(out)
			p.StaticOk = strings.HasPrefix(out, static)
			body := strings.TrimPrefix(out, static)
			lines := strings.Split(body, "\n")
			// menu lines sit at the end; rows never contain ':'
			nmenu := 0
			haveOrd := false
			for len(lines) > 0 {
				last := lines[len(lines)-1]
				if last == nextSel+":"+nextTitle && c.NextLen > 0 && !p.Next {
					p.Next = true
				} else if last == prevSel+":"+prevTitle && c.PrevLen > 0 && !p.Prev {
					p.Prev = true
				} else if last == ordSel+":"+ordTitle && c.Menu > 0 && !haveOrd && !c.Msink {
					haveOrd = true
				} else {
					break
				}
				lines = lines[:len(lines)-1]
				nmenu++
			}
			if c.Menu > 0 && !haveOrd && !c.Msink {
				p.StaticOk = false
			}
			p.Rows = lines
		}
		ev.Pages = append(ev.Pages, p)
	}
	return ev
}

// render-cases <cases.ndjson> <trace-out>: cases come from TLC (RenderMC behaviour emission)
func cmdRenderCases(args []string) error {
	out, err := newNdw(args[1])
	if err != nil {
		return err
	}
	defer out.close()
	n, kinds := 0, map[string]int{}
	err = eachLine(args[0], func(b []byte) error {
		var c renderCase
		if err := json.Unmarshal(b, &c); err != nil {
			return err
		}
		c.Cfg.Utf = n%3 == 2 // every third enumerated configuration with two-byte characters
		ev := renderFamily(c.Cfg, c.Maxidx)
		for _, p := range ev.Pages {
			kinds[p.Kind]++
		}
		out.put(ev)
		n++
		return nil
	})
	summary(map[string]any{"cases": n, "pages": kinds})
	return err
}

// render-random <trace-out> <cases>: larger random configurations (up to 40 rows, sizes up to 300)
func cmdRenderRandom(args []string) error {
	out, err := newNdw(args[0])
	if err != nil {
		return err
	}
	defer out.close()
	var n int
	fmt.Sscan(args[1], &n)
	rng := rand.New(rand.NewSource(seed()))
	kinds := map[string]int{}
	for i := 0; i < n; i++ {
		c := renderCfg{Size: 12 + rng.Intn(289), TplStatic: 1 + rng.Intn(30)}
		if rng.Intn(3) == 0 {
			c.ErrLen = 1 + rng.Intn(30)
		}
		if rng.Intn(3) == 0 {
			c.ValLen = 1 + rng.Intn(12)
		}
		c.Utf = rng.Intn(4) == 0
		c.Tpl = c.TplStatic + c.ValLen
		if c.ErrLen > 0 {
			c.Tpl += c.ErrLen + 1
		}
		if rng.Intn(2) == 0 {
			c.Menu = 3 + rng.Intn(20)
		}
		if rng.Intn(4) != 0 {
			c.NextLen, c.PrevLen = 4+rng.Intn(12), 4+rng.Intn(12)
		}
		nr := 1 + rng.Intn(40)
		if rng.Intn(5) == 0 && c.ValLen == 0 {
			c.Msink = true
			nr = 1 + rng.Intn(26)
		}
		for k := 0; k < nr; k++ {
			l := rng.Intn(24)
			if rng.Intn(6) == 0 {
				l = 0
			}
			if c.Msink && l < 3 {
				l = 3
			}
			c.Rows = append(c.Rows, l)
		}
		if i%40 == 7 {
			// output sizes at and beyond the 16-bit boundary, with content that does and does not fit
			c.Size = []int{65535, 65536, 65537, 70000, 131072}[rng.Intn(5)]
			c.Msink, c.Utf = false, false
			nr = 2 + rng.Intn(3)
			c.Rows = nil
			for k := 0; k < nr; k++ {
				c.Rows = append(c.Rows, 15000+rng.Intn(30000))
			}
		}
		ev := renderFamily(c, nr+2)
		if len(ev.Pages) > 0 {
			// trim the family: keep up to two pages past the last one that rendered
			last := -1
			for k, p := range ev.Pages {
				if p.Kind == "ok" {
					last = k
				}
			}
			if last+3 < len(ev.Pages) {
				ev.Pages = ev.Pages[:last+3]
			}
		}
		for _, p := range ev.Pages {
			kinds[p.Kind]++
		}
		out.put(ev)
	}
	summary(map[string]any{"cases": n, "pages": kinds})
	return nil
}

func init() {
	register("render-cases", cmdRenderCases)
	register("render-random", cmdRenderRandom)
}
