package main

// Concurrent sessions on one filesystem data directory (C11): every goroutine has its own store handle and session id,
// writes values that name their writer and reads its own keys back.  One "kvc" line per operation, written under a
// mutex in completion order (each line is judged on its own: what a session reads is what that session wrote last).

import (
	"context"
	"fmt"
	"math/rand"
	"os"
	"strings"
	"sync"

	"git.defalsify.org/vise.git/db"
	fsdb "git.defalsify.org/vise.git/db/fs"
)

type kvcEvent struct {
	Ev    string `json:"ev"`
	Sid   string `json:"sid"`
	Type  int    `json:"type"`
	Op    string `json:"op"`
	K     string `json:"k"`
	Res   string `json:"res"`
	Want  string `json:"want"`  // writer tag + serial of this session's last acknowledged write to the key ("" = never written)
	Got   string `json:"got"`   // tag + serial found in the value read
	GotOk bool   `json:"gotok"` // the value read is whole (length and filler as written)
}

// kv-conc <trace-out> <goroutines> <ops-per-goroutine> <rounds>
func cmdKvConc(args []string) error {
	out, err := newNdw(args[0])
	if err != nil {
		return err
	}
	defer out.close()
	var ng, nops, rounds int
	fmt.Sscan(args[1], &ng)
	fmt.Sscan(args[2], &nops)
	fmt.Sscan(args[3], &rounds)
	var mu sync.Mutex
	total := 0
	for round := 0; round < rounds; round++ {
		dir, err := os.MkdirTemp("", "verif-kvconc-")
		if err != nil {
			return err
		}
		var wg sync.WaitGroup
		for g := 0; g < ng; g++ {
			wg.Add(1)
			go func(g int) {
				defer wg.Done()
				ctx := context.Background()
				rng := rand.New(rand.NewSource(seed()*1000 + int64(round*100+g)))
				store := fsdb.NewFsDb()
				if err := store.Connect(ctx, dir); err != nil {
					panic(err)
				}
				typ := []uint8{db.DATATYPE_USERDATA, db.DATATYPE_STATE}[g%2]
				store.SetPrefix(typ)
				sid := fmt.Sprintf("sess%d", g/2) // two goroutines share a session id but not a data type
				store.SetSession(sid)
				tag := fmt.Sprintf("%s/%d", sid, typ)
				last := map[string]string{}
				for n := 0; n < nops; n++ {
					k := []string{"note", "pin", "k"}[rng.Intn(3)]
					ev := kvcEvent{Ev: "kvc", Sid: sid, Type: int(typ), K: k, Want: last[k]}
					if rng.Intn(2) == 0 {
						ev.Op = "put"
						serial := fmt.Sprintf("%s#%d", tag, n)
						size := []int{16, 4096, 1 << 16, 1 << 20}[rng.Intn(4)]
						val := serial + "|" + strings.Repeat("x", size)
						err := store.Put(ctx, []byte(k), []byte(val))
						if err == nil {
							ev.Res = "ok"
							last[k] = serial
						} else {
							ev.Res = "err"
							// a refused write may or may not have replaced the record: not judged further for this key
							delete(last, k)
							last[k] = "?"
						}
					} else {
						ev.Op = "get"
						v, err := store.Get(ctx, []byte(k))
						switch {
						case err == nil:
							ev.Res = "ok"
							s := string(v)
							if i := strings.Index(s, "|"); i >= 0 {
								ev.Got = s[:i]
								ev.GotOk = strings.Trim(s[i+1:], "x") == ""
							} else {
								ev.Got = "unparsable"
							}
						case db.IsNotFound(err):
							ev.Res = "notfound"
						default:
							ev.Res = "err"
						}
					}
					mu.Lock()
					out.put(ev)
					total++
					mu.Unlock()
				}
			}(g)
		}
		wg.Wait()
		os.RemoveAll(dir)
	}
	summary(map[string]any{"goroutines": ng, "rounds": rounds, "operations": total})
	return nil
}

func init() { register("kv-conc", cmdKvConc) }
