package main

// fakepg: an in-process implementation of postgres.PgInterface / pgx.Tx / pgx.Rows with real transactional semantics
// (private write set, read-your-writes, aborted-transaction rule: after a failed statement every further statement of the
// transaction fails and COMMIT rolls back) and a fault plan "fail the k-th primitive call". It logs begin/commit/rollback.

import (
	"context"
	"errors"
	"fmt"
	"sort"
	"strings"

	pgx "github.com/jackc/pgx/v5"
	"github.com/jackc/pgx/v5/pgconn"

	"git.defalsify.org/vise.git/db/postgres"
)

type pgServer struct {
	committed map[string][]byte
	log       []string
	plan      []bool // fault decisions, consumed one per primitive call
	soft      bool   // failing statements fail on the client side: the transaction is not poisoned
	used      int
	ntx       int
	open      map[int]bool
}

func newPgServer() *pgServer {
	return &pgServer{committed: map[string][]byte{}, open: map[int]bool{}}
}

func (s *pgServer) tick(what string) error {
	f := s.used < len(s.plan) && s.plan[s.used]
	s.used++
	if f {
		s.log = append(s.log, "FAIL:"+what)
		return errors.New("injected fault: " + what)
	}
	return nil
}

func (s *pgServer) BeginTx(ctx context.Context, o pgx.TxOptions) (pgx.Tx, error) {
	if err := s.tick("begin"); err != nil {
		return nil, err
	}
	s.ntx++
	s.open[s.ntx] = true
	s.log = append(s.log, fmt.Sprintf("begin:%d", s.ntx))
	return &pgTx{s: s, id: s.ntx, ws: map[string][]byte{}}, nil
}

func (s *pgServer) Close() {}

type pgTx struct {
	pgx.Tx
	s             *pgServer
	id            int
	ws            map[string][]byte
	aborted, done bool
}

func (t *pgTx) Commit(ctx context.Context) error {
	if t.done {
		t.s.log = append(t.s.log, "REFUSED:commit") // a transaction that is over is ended once more
		return pgx.ErrTxClosed
	}
	t.done = true
	delete(t.s.open, t.id)
	if err := t.s.tick("commit"); err != nil {
		t.s.log = append(t.s.log, fmt.Sprintf("rollback:%d", t.id)) // a failed COMMIT ends the transaction without effect
		return err
	}
	if t.aborted {
		t.s.log = append(t.s.log, fmt.Sprintf("rollback:%d", t.id))
		return pgx.ErrTxCommitRollback
	}
	for k, v := range t.ws {
		t.s.committed[k] = v
	}
	t.s.log = append(t.s.log, fmt.Sprintf("commit:%d", t.id))
	return nil
}

func (t *pgTx) Rollback(ctx context.Context) error {
	if t.done {
		t.s.log = append(t.s.log, "REFUSED:rollback")
		return pgx.ErrTxClosed
	}
	t.done = true
	delete(t.s.open, t.id)
	if err := t.s.tick("rollback"); err != nil {
		return err // a failed ROLLBACK: the transaction is over on the server all the same
	}
	t.s.log = append(t.s.log, fmt.Sprintf("rollback:%d", t.id))
	return nil
}

func (t *pgTx) Exec(ctx context.Context, sql string, args ...any) (pgconn.CommandTag, error) {
	if t.done || t.aborted {
		t.s.log = append(t.s.log, "REFUSED:exec")
		return pgconn.CommandTag{}, errors.New("transaction is closed or aborted")
	}
	if err := t.s.tick("exec"); err != nil {
		t.aborted = !t.s.soft
		return pgconn.CommandTag{}, err
	}
	if len(args) >= 2 {
		t.ws[string(args[0].([]byte))] = append([]byte{}, args[1].([]byte)...)
	}
	return pgconn.NewCommandTag("INSERT 0 1"), nil
}

func (t *pgTx) Query(ctx context.Context, sql string, args ...any) (pgx.Rows, error) {
	if t.done || t.aborted {
		t.s.log = append(t.s.log, "REFUSED:query")
		return nil, errors.New("transaction is closed or aborted")
	}
	if err := t.s.tick("query"); err != nil {
		t.aborted = !t.s.soft
		return nil, err
	}
	k := string(args[0].([]byte))
	r := &pgRows{t: t}
	if strings.Contains(sql, ">=") {
		// the listing query "SELECT key, value ... WHERE key >= $1": every visible row from that key on, in key order
		// (the order an index scan gives - the most favourable one for a caller that stops at the first foreign key)
		vis := map[string][]byte{}
		for kk, vv := range t.s.committed {
			vis[kk] = vv
		}
		for kk, vv := range t.ws {
			vis[kk] = vv
		}
		var ks []string
		for kk := range vis {
			if kk >= k {
				ks = append(ks, kk)
			}
		}
		sort.Strings(ks)
		for _, kk := range ks {
			r.keys = append(r.keys, []byte(kk))
			r.vals = append(r.vals, vis[kk])
		}
		return r, nil
	}
	v, ok := t.ws[k]
	if !ok {
		v, ok = t.s.committed[k]
	}
	if ok {
		r.vals = [][]byte{v}
	}
	return r, nil
}

type pgRows struct {
	pgx.Rows
	t    *pgTx
	keys [][]byte // listing query only
	vals [][]byte
	i    int
}

func (r *pgRows) Next() bool { r.i++; return r.i <= len(r.vals) }
func (r *pgRows) Scan(dest ...any) error {
	if err := r.t.s.tick("scan"); err != nil {
		r.t.aborted = !r.t.s.soft
		return err
	}
	if len(dest) == 2 {
		*(dest[0].(*[]byte)) = append([]byte{}, r.keys[r.i-1]...)
		*(dest[1].(*[]byte)) = append([]byte{}, r.vals[r.i-1]...)
		return nil
	}
	*(dest[0].(*[]byte)) = append([]byte{}, r.vals[r.i-1]...)
	return nil
}
func (r *pgRows) Close()     {}
func (r *pgRows) Err() error { return nil }

func newFakePgStore() dbLike {
	return postgres.NewPgDb().WithConnection(newPgServer())
}
