package main

// Engine-level pagination walks (C02, C01): a session enters a node with paged sink content and walks it with the
// client's "next" selector until no next entry is offered, visits a second node with a DIFFERENT sink, comes back and
// walks the first node again - with one long-lived engine (renderer objects reused) and with a fresh engine per request.

import (
	"bytes"
	"context"
	"fmt"
	"math/rand"
	"strings"

	"git.defalsify.org/vise.git/cache"
	"git.defalsify.org/vise.git/engine"
	"git.defalsify.org/vise.git/persist"
	"git.defalsify.org/vise.git/resource"
	"git.defalsify.org/vise.git/state"
	"git.defalsify.org/vise.git/vm"
)

type walkEvent struct {
	Ev    string    `json:"ev"`
	Sid   string    `json:"sid"`
	Mode  string    `json:"mode"`
	Node  string    `json:"node"`
	Visit int       `json:"visit"`
	Cfg   renderCfg `json:"cfg"`
	Rows  []string  `json:"rows"`
	Pages []pageRec `json:"pages"`
	Ended string    `json:"ended"` // why the walk stopped: nonext | error | stuck
}

// msub: the MENU is the sink (MSINK): its items are the rows, paged with their own next / previous entries
func msubNode(items []string) []Instr {
	code := []Instr{}
	for i, it := range items {
		code = append(code, Instr{Op: "MOUT", A: it, B: fmt.Sprint(30 + i)})
	}
	return append(code, Instr{Op: "MSINK"}, Instr{Op: "MNEXT", A: "nx", B: "11"}, Instr{Op: "MPREV", A: "pv", B: "22"}, Instr{Op: "HALT"},
		Instr{Op: "INCMP", A: ">", B: "11"}, Instr{Op: "INCMP", A: "<", B: "22"}, Instr{Op: "INCMP", A: "_", B: "0"})
}

func walkProgram(rows1, rows2 []string, size int) *Program {
	p := &Program{Name: "walk", Root: "root", FlagCount: 2, OutputSize: size, Nodes: map[string][]Instr{
		"root": {{Op: "LOAD", A: "txt", N: 0}, {Op: "MAP", A: "txt"}, {Op: "MNEXT", A: "next", B: "11"}, {Op: "MPREV", A: "prev", B: "22"}, {Op: "MOUT", A: "other", B: "1"}, {Op: "HALT"},
			{Op: "INCMP", A: ">", B: "11"}, {Op: "INCMP", A: "<", B: "22"}, {Op: "INCMP", A: "sub", B: "1"}, {Op: "INCMP", A: "msub", B: "3"}, {Op: "INCMP", A: "plain", B: "4"}},
		"sub": {{Op: "LOAD", A: "two", N: 0}, {Op: "MAP", A: "two"}, {Op: "MNEXT", A: "fwd", B: "11"}, {Op: "MPREV", A: "back", B: "22"}, {Op: "MOUT", A: "up", B: "0"}, {Op: "HALT"},
			{Op: "INCMP", A: ">", B: "11"}, {Op: "INCMP", A: "<", B: "22"}, {Op: "INCMP", A: "_", B: "0"}},
		"_catch": {{Op: "HALT"}, {Op: "INCMP", A: "_", B: "*"}},
		// a node without any menu, shown after the menu-sink node
		"plain": {{Op: "LOAD", A: "small", N: 8}, {Op: "MAP", A: "small"}, {Op: "HALT"}, {Op: "INCMP", A: "msub", B: "3"}, {Op: "INCMP", A: "_", B: "*"}},
	}, Templates: map[string]string{"root": "R\n{{.txt}}", "sub": "S\n{{.two}}", "msub": "M", "plain": "P {{.small}}"}, Syms: map[string][]SymResult{
		"small": {{Content: "pq", Set: []int{}, Reset: []int{}}},
		"txt":   {{Content: strings.Join(rows1, "\n"), Set: []int{}, Reset: []int{}}},
		"two":   {{Content: strings.Join(rows2, "\n"), Set: []int{}, Reset: []int{}}},
	}}
	p.build()
	return p
}

type walker struct {
	p     *Program
	mode  string
	sid   string
	en    *engine.DefaultEngine
	store dbLike
	first bool // the application has a pre-VM check (engine.WithFirst) that lets every request pass
}

func (w *walker) request(in string) (out string, cont bool, failed bool) {
	ctx := context.Background()
	var pe *persist.Persister
	if w.mode == "P" || w.en == nil {
		rs := &recResource{prog: w.p}
		w.en = engine.NewEngine(engine.Config{Root: "root", FlagCount: 2, OutputSize: uint32(w.p.OutputSize), SessionId: w.sid}, rs)
		if w.mode == "P" {
			pe = persist.NewPersister(w.store)
			w.en = w.en.WithPersister(pe)
		} else {
			w.en = w.en.WithState(state.NewState(2)).WithMemory(cache.NewCache())
		}
		if w.first {
			w.en = w.en.WithFirst(func(ctx context.Context, sym string, input []byte) (resource.Result, error) {
				return resource.Result{}, nil
			})
		}
	}
	defer func() {
		if r := recover(); r != nil {
			out, failed = fmt.Sprint("PANIC ", r), true
		}
	}()
	c, err := w.en.Exec(ctx, []byte(in))
	buf := bytes.NewBuffer(nil)
	if err == nil {
		_, err = w.en.Flush(ctx, buf)
	}
	if w.mode == "P" {
		w.en.Finish(ctx)
	}
	return buf.String(), c, err != nil
}

func parseWalkPage(out string, head string, ordinary string, nextLine string, prevLine string) pageRec {
	p := pageRec{Kind: "ok", Len: len(out), Out: out, Rows: []string{}}
	static := head + "\n"
	p.StaticOk = strings.HasPrefix(out, static)
	lines := strings.Split(strings.TrimPrefix(out, static), "\n")
	haveOrd := false
	for len(lines) > 0 {
		last := lines[len(lines)-1]
		if last == nextLine && !p.Next {
			p.Next = true
		} else if last == prevLine && !p.Prev {
			p.Prev = true
		} else if ordinary != "" && last == ordinary && !haveOrd {
			haveOrd = true
		} else {
			break
		}
		lines = lines[:len(lines)-1]
	}
	if ordinary != "" && !haveOrd {
		p.StaticOk = false
	}
	p.Rows = lines
	return p
}

// walk-run <trace-out> <sessions>
func cmdWalkRun(args []string) error {
	out, err := newNdw(args[0])
	if err != nil {
		return err
	}
	defer out.close()
	var nsess int
	fmt.Sscan(args[1], &nsess)
	rng := rand.New(rand.NewSource(seed()))
	vm.VerifHook = nil
	genRows := func() []string {
		n := 2 + rng.Intn(9)
		rows := make([]string, n)
		for i := range rows {
			l := 1 + rng.Intn(14+6*rng.Intn(2))
			if rng.Intn(7) == 0 && i > 0 && i < n-1 {
				l = 0
			}
			rows[i] = strings.Repeat(string(rune('a'+i)), l)
		}
		return rows
	}
	nwalks := 0
	for si := 0; si < nsess; si++ {
		rows1, rows2 := genRows(), genRows()
		size := 32 + rng.Intn(68)
		p := walkProgram(rows1, rows2, size)
		nitems := 4 + rng.Intn(9)
		var items, mrows []string
		for i := 0; i < nitems; i++ {
			it := strings.Repeat(string(rune('k'+i)), 1+rng.Intn(14))
			items = append(items, it)
			mrows = append(mrows, fmt.Sprintf("%d:%s", 30+i, it))
		}
		p.Nodes["msub"] = msubNode(items)
		p.build()
		mode := []string{"L", "P"}[si%2]
		// (every third walk through an application with a pre-VM check: it runs in every request of persisted operation)
		w := &walker{p: p, mode: mode, sid: fmt.Sprintf("w%d", si), store: newMemStore(), first: si%3 == 2}
		lastOut := ""
		walk := func(first string, node string, visit int, rows []string, head, ord, nl, pl string) bool {
			ev := walkEvent{Ev: "walk", Sid: w.sid, Mode: mode, Node: node, Visit: visit, Rows: rows,
				Cfg: renderCfg{Size: size, Tpl: len(head) + 1, TplStatic: len(head) + 1, Menu: len(ord), NextLen: len(nl), PrevLen: len(pl)}}
			if node == "msub" {
				ev.Cfg.Msink, ev.Cfg.Tpl, ev.Cfg.TplStatic = true, len(head), len(head)
			}
			for _, r := range rows {
				ev.Cfg.Rows = append(ev.Cfg.Rows, len(r))
			}
			in := first
			for k := 0; k < 40; k++ {
				o, cont, failed := w.request(in)
				if failed || !cont {
					why := o
					if len(why) > 60 {
						why = why[:60]
					}
					ev.Pages = append(ev.Pages, pageRec{Kind: "err", Why: "request failed: " + why, Rows: []string{}})
					ev.Ended = "error"
					break
				}
				lastOut = o
				pg := parseWalkPage(o, head, ord, nl, pl)
				ev.Pages = append(ev.Pages, pg)
				if !pg.Next {
					ev.Ended = "nonext"
					break
				}
				in = "11"
			}
			if ev.Ended == "" {
				ev.Ended = "stuck"
			}
			out.put(ev)
			nwalks++
			return ev.Ended == "nonext"
		}
		if !walk("", "root", 1, rows1, "R", "1:other", "11:next", "22:prev") {
			continue
		}
		// back to the first page, then to the other node, walk it, come back and walk the first node again
		ok := true
		for k := 0; k < 40 && ok && strings.Contains(lastOut, "22:prev"); k++ {
			o, _, failed := w.request("22")
			if failed {
				ok = false
			}
			lastOut = o
		}
		if !ok {
			continue
		}
		if !walk("1", "sub", 1, rows2, "S", "0:up", "11:fwd", "22:back") {
			continue
		}
		for k := 0; k < 40 && ok && strings.Contains(lastOut, "22:back"); k++ {
			o, _, failed := w.request("22")
			if failed {
				ok = false
			}
			lastOut = o
		}
		if !ok {
			continue
		}
		if !walk("0", "root", 2, rows1, "R", "1:other", "11:next", "22:prev") {
			continue
		}
		for k := 0; k < 40 && ok && strings.Contains(lastOut, "22:prev"); k++ {
			o, _, failed := w.request("22")
			if failed {
				ok = false
			}
			lastOut = o
		}
		if !ok {
			continue
		}
		// a node with no sink and no menu, then - straight from it - the menu-sink node, back to the plain node, and the
		// first node once more: every page is rendered by objects that have just rendered a page of another kind
		plainOk := func(in string, visit int) bool {
			o, cont, failed := w.request(in)
			if failed || !cont || o != "P pq" {
				// reported as a failing page reached by a selector that was offered (index 1 of a two-page family)
				out.put(walkEvent{Ev: "walk", Sid: w.sid, Mode: mode, Node: "plain", Visit: visit, Rows: []string{}, Cfg: renderCfg{Size: size, Rows: []int{}},
					Pages: []pageRec{{Kind: "ok", Rows: []string{}}, {Kind: "err", Why: "plain node: " + o, Rows: []string{}}}, Ended: "error"})
				nwalks++
				return false
			}
			return true
		}
		if !plainOk("4", 1) {
			continue
		}
		if !walk("3", "msub", 1, mrows, "M", "", "11:nx", "22:pv") {
			continue
		}
		if !plainOk("0", 2) {
			continue
		}
		walk("0", "root", 3, rows1, "R", "1:other", "11:next", "22:prev")
	}
	summary(map[string]any{"sessions": nsess, "walks": nwalks})
	return nil
}

func init() { register("walk-run", cmdWalkRun) }
