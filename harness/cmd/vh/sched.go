package main

// Deterministic interleavings (C19): two sessions run their first request on two goroutines; the verif hook in vm.Run is
// used as a scheduler gate, so that a TLC-generated schedule (sequence of session numbers, one entry per run-loop
// iteration) is reproduced exactly on the real VM.  Program = the one of Sessions.tla:
//   root: CATCH foo | foo: INCMP bar 1, INCMP baz 2 | bar: MOUT one 1, HALT | baz: MOUT two 2, HALT

import (
	"bytes"
	"context"
	"encoding/json"
	"fmt"
	"sync"

	"git.defalsify.org/vise.git/cache"
	"git.defalsify.org/vise.git/engine"
	"git.defalsify.org/vise.git/state"
	"git.defalsify.org/vise.git/vm"
)

func schedProgram() *Program {
	p := &Program{Name: "sessions", Root: "root", FlagCount: 2, Nodes: map[string][]Instr{
		"root":   {{Op: "CATCH", A: "foo", N: 8, M: 0}},
		"foo":    {{Op: "INCMP", A: "bar", B: "1"}, {Op: "INCMP", A: "baz", B: "2"}},
		"bar":    {{Op: "MOUT", A: "one", B: "1"}, {Op: "HALT"}},
		"baz":    {{Op: "MOUT", A: "two", B: "2"}, {Op: "HALT"}},
		"_catch": {{Op: "HALT"}, {Op: "INCMP", A: "_", B: "*"}},
	}, Templates: map[string]string{}, Syms: map[string][]SymResult{}}
	p.build()
	return p
}

type gate struct {
	mu    sync.Mutex
	cond  *sync.Cond
	sched []int
	pos   int
	done  map[int]bool
	who   map[*state.State]int
}

func (g *gate) hook(ev string, v *vm.Vm, b []byte) {
	st, _, _, _ := v.VerifParts()
	g.mu.Lock()
	defer g.mu.Unlock()
	s, ok := g.who[st]
	if !ok {
		return
	}
	if ev == "exit" {
		g.done[s] = true
		g.cond.Broadcast()
		return
	}
	for {
		// skip schedule entries of sessions that have finished
		for g.pos < len(g.sched) && g.done[g.sched[g.pos]] {
			g.pos++
		}
		if g.pos >= len(g.sched) || g.sched[g.pos] == s {
			break
		}
		g.cond.Wait()
	}
	if g.pos < len(g.sched) {
		g.pos++
	}
	g.cond.Broadcast()
}

// sched-run <schedules.ndjson> <spare>
func cmdSchedRun(args []string) error {
	var spare int
	fmt.Sscan(args[1], &spare)
	p := schedProgram()
	inputs := map[int]string{1: "1", 2: "2"}
	solo := map[int]string{}
	for s := 1; s <= 2; s++ {
		solo[s] = serveQuiet(p, cloneCode(p, 0), "solo", "L", []string{inputs[s]}, 1)[0]
	}
	n, nmis := 0, 0
	var ex []map[string]any
	dirty := 0
	err := eachLine(args[0], func(b []byte) error {
		var sched []int
		if err := json.Unmarshal(b, &sched); err != nil {
			return err
		}
		n++
		shared := cloneCode(p, spare)
		g := &gate{sched: sched, done: map[int]bool{}, who: map[*state.State]int{}}
		g.cond = sync.NewCond(&g.mu)
		vm.VerifHook = g.hook
		got := map[int]string{}
		var wg sync.WaitGroup
		var gm sync.Mutex
		for s := 1; s <= 2; s++ {
			st := state.NewState(uint32(p.FlagCount))
			g.who[st] = s
			wg.Add(1)
			go func(s int, st *state.State) {
				defer wg.Done()
				req, call := 0, 0
				rs := &sharedResource{prog: p, code: shared, pseed: 1, req: &req, call: &call}
				en := engine.NewEngine(engine.Config{Root: "root", FlagCount: uint32(p.FlagCount)}, rs).WithState(st).WithMemory(cache.NewCache())
				line := ""
				func() {
					defer func() {
						if r := recover(); r != nil {
							line = fmt.Sprintf("PANIC %v", r)
							g.mu.Lock()
							g.done[s] = true
							g.cond.Broadcast()
							g.mu.Unlock()
						}
					}()
					ctx := context.Background()
					cont, err := en.Exec(ctx, []byte(inputs[s]))
					g.mu.Lock()
					g.done[s] = true
					g.cond.Broadcast()
					g.mu.Unlock()
					w := bytes.NewBuffer(nil)
					if err == nil {
						en.Flush(ctx, w)
					}
					lg := ""
					if st.Language != nil {
						lg = st.Language.Code
					}
					line = fmt.Sprintf("%v|%v|%v|%s|%s", cont, err != nil, false, lg, w.String()) // (the format of serveQuiet)
				}()
				gm.Lock()
				got[s] = line
				gm.Unlock()
			}(s, st)
		}
		wg.Wait()
		vm.VerifHook = nil
		bad := got[1] != solo[1] || got[2] != solo[2]
		for k, v := range shared {
			if !bytes.Equal(v, p.code[k]) || !bytes.Equal(v[:cap(v)][len(v):], make([]byte, cap(v)-len(v))) {
				bad = true
				dirty++
			}
		}
		if bad {
			nmis++
			if len(ex) < 3 {
				ex = append(ex, map[string]any{"schedule": sched, "solo": []string{enc(solo[1]), enc(solo[2])}, "interleaved": []string{enc(got[1]), enc(got[2])}})
			}
		}
		return nil
	})
	if ex == nil {
		ex = []map[string]any{}
	}
	summary(map[string]any{"schedules": n, "mismatches": nmis, "examples": ex, "shared_data_modified": dirty, "spare": spare})
	return err
}

func init() { register("sched-run", cmdSchedRun) }
