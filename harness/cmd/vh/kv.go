package main

// Storage backend driver (C10, C11): the same operation sequence on mem, fs (text keys), fs (binary keys) and the
// Postgres driver over fakepg; one ndjson line per operation and backend.

import (
	"context"
	"encoding/json"
	"fmt"
	"math/rand"
	"os"
	"sort"

	"git.defalsify.org/vise.git/db"
	fsdb "git.defalsify.org/vise.git/db/fs"
	"git.defalsify.org/vise.git/db/postgres"
	"git.defalsify.org/vise.git/lang"
)

type kvOp struct {
	Op string `json:"op"`
	T  int    `json:"t"`
	S  string `json:"s"`
	K  string `json:"k"`
	V  string `json:"v"`
	B  bool   `json:"b"`
}

type kvPair struct {
	K  string `json:"k"`
	V  string `json:"v"`
	Pt int    `json:"pt"` // provenance of the value: data type and session it was written under
	Ps string `json:"ps"`
	Pk bool   `json:"pk"` // provenance known (values are unique per write, except the empty value)
}

type kvEvent struct {
	Ev      string   `json:"ev"`
	Backend string   `json:"backend"`
	Seq     int      `json:"seq"`
	First   bool     `json:"first"`
	O       kvOp     `json:"o"`
	Res     string   `json:"res"`
	Val     string   `json:"val"`
	Pt      int      `json:"pt"`
	Ps      string   `json:"ps"`
	Known   bool     `json:"known"` // the returned value is one this sequence wrote
	List    []kvPair `json:"list"`
	Panic   string   `json:"panic"`
}

var kvBackends = []string{"mem", "fs", "fsbin", "pg"}

func newKvBackend(kind string) (db.Db, func()) {
	ctx := context.Background()
	switch kind {
	case "fs", "fsbin":
		dir, err := os.MkdirTemp("", "verif-kv-")
		if err != nil {
			panic(err)
		}
		s := fsdb.NewFsDb()
		if kind == "fsbin" {
			s = s.WithBinary()
		}
		if err := s.Connect(ctx, dir); err != nil {
			panic(err)
		}
		return s, func() { os.RemoveAll(dir) }
	case "pg":
		return postgres.NewPgDb().WithConnection(newPgServer()), func() {}
	default:
		return newMemStore(), func() {}
	}
}

type prov struct {
	t int
	s string
}

func runKvSequence(ops []kvOp, seq int, backends []string, out *ndw, kinds map[string]int) {
	for _, be := range backends {
		store, cleanup := newKvBackend(be)
		provs := map[string]prov{}
		curT, curS := 0, ""
		ctx := context.Background() // carries the caller's language ("Language" context value), as the engine does
		emitted := 0
		for _, o := range ops {
			if o.Op == "dump" && be != "fs" && be != "fsbin" && be != "pg" {
				continue // listings: the filesystem backend (C10 and C11) and the Postgres driver's key-range scan (C11 only)
			}
			ev := kvEvent{Ev: "kv", Backend: be, Seq: seq, First: emitted == 0, O: kvOp{o.Op, o.T, enc(o.S), enc(o.K), enc(o.V), o.B}, List: []kvPair{}}
			func() {
				defer func() {
					if r := recover(); r != nil {
						ev.Panic = fmt.Sprint(r)
						ev.Res = "panic"
					}
				}()
				var err error
				switch o.Op {
				case "setprefix":
					store.SetPrefix(uint8(o.T))
					curT = o.T
				case "setsession":
					store.SetSession(o.S)
					curS = o.S
				case "setlang":
					if o.S == "" {
						store.SetLanguage(nil)
					} else {
						l, lerr := lang.LanguageFromCode(o.S)
						if lerr != nil {
							panic(lerr)
						}
						store.SetLanguage(&l)
					}
				case "setctxlang":
					ctx = context.Background()
					if o.S != "" {
						l, lerr := lang.LanguageFromCode(o.S)
						if lerr != nil {
							panic(lerr)
						}
						ctx = context.WithValue(ctx, "Language", l)
					}
				case "setlock":
					err = store.SetLock(uint8(o.T), o.B)
				case "put":
					buf := []byte(o.V)
					err = store.Put(ctx, []byte(o.K), buf)
					for j := range buf { // the caller reuses its buffer: the stored value is the store's own
						buf[j] = '#'
					}
					if err == nil && o.V != "" {
						provs[o.V] = prov{curT, curS}
					}
				case "get":
					var v []byte
					v, err = store.Get(ctx, []byte(o.K))
					if err == nil {
						ev.Val = enc(string(v))
						if p, ok := provs[string(v)]; ok {
							ev.Pt, ev.Ps, ev.Known = p.t, enc(p.s), true
						}
						for j := range v { // ... and what a read hands out is the reader's to scribble on
							v[j] = '#'
						}
					}
				case "dump":
					var d *db.Dumper
					d, err = store.Dump(ctx, []byte(o.K))
					if err == nil {
						for {
							k, v := d.Next(ctx)
							if k == nil {
								break
							}
							p, known := provs[string(v)]
							ev.List = append(ev.List, kvPair{enc(string(k)), enc(string(v)), p.t, enc(p.s), known})
							if len(ev.List) > 200 {
								break
							}
						}
						d.Close()
						sort.Slice(ev.List, func(a, b int) bool { return ev.List[a].K < ev.List[b].K })
					}
				}
				switch {
				case err == nil:
					ev.Res = "ok"
				case db.IsNotFound(err):
					ev.Res = "notfound"
				default:
					ev.Res = "err"
				}
			}()
			kinds[fmt.Sprintf("%s/%s/%s/t%d", be, o.Op, ev.Res, curT)]++
			out.put(ev)
			emitted++
			if ev.Res == "panic" {
				break
			}
		}
		cleanup()
	}
}

// kv-run <sequences.ndjson> <trace-out> [backends]
func cmdKvRun(args []string) error {
	out, err := newNdw(args[1])
	if err != nil {
		return err
	}
	defer out.close()
	backends := kvBackends
	if len(args) > 2 {
		backends = splitComma(args[2])
	}
	kinds := map[string]int{}
	n := 0
	err = eachLine(args[0], func(b []byte) error {
		var ops []kvOp
		if err := json.Unmarshal(b, &ops); err != nil {
			return err
		}
		runKvSequence(ops, n, backends, out, kinds)
		n++
		return nil
	})
	summary(map[string]any{"sequences": n, "events": out.n, "distinct": len(kinds)})
	return err
}

var kvTypes = []int{1, 2, 4, 8, 16, 32}

// kv-random <trace-out> <sequences> <maxlen> <mode: wellformed|adversarial>
func cmdKvRandom(args []string) error {
	out, err := newNdw(args[0])
	if err != nil {
		return err
	}
	defer out.close()
	var nseq, maxlen int
	fmt.Sscan(args[1], &nseq)
	fmt.Sscan(args[2], &maxlen)
	adversarial := args[3] == "adversarial"
	rng := rand.New(rand.NewSource(seed()))
	kinds := map[string]int{}
	// (session ids that differ in one punctuation character are different sessions; in the adversarial universe the empty key is
	// a key too: it is what a persister saves under when the session is selected on the store handle)
	keys := []string{"foo", "bar", "ba_r9", "xyzzy", "k1", "inky", "a0"}
	sids := []string{"", "alice", "bob", "s1", "254700000000", "254700000000:7", "254700000000_7"}
	if adversarial {
		keys = []string{"k", "b.c", "c", "a.b", ".", "..", "x/../@y.k", "@bob.k", "Pbob.k", "k_nor", "k_eng", "@", "P", "\x00", "\xff\xfe", "k.k", "y.k", "../x", "2foo", "", "k:1", "k_1", "k*1"}
		sids = []string{"", "a", "a.b", "x/../@y", "y", "bob", "@bob", "Pbob", ".", "..", "a/b", "\x00", "a.", ".a", "x/..", "a:b", "a_b", "a*b", "a?b", "a|b", "a<b"}
	}
	langs := []string{"", "nor", "eng", "fra"}
	nv := 0
	for s := 0; s < nseq; s++ {
		var ops []kvOp
		n := 2 + rng.Intn(maxlen)
		ops = append(ops, kvOp{Op: "setlock", T: []int{1, 2, 4, 8}[rng.Intn(4)], B: false}) // some writable read-only types
		if rng.Intn(2) == 0 {
			ops = append(ops, kvOp{Op: "setlock", T: []int{1, 2, 4, 8}[rng.Intn(4)], B: false})
		}
		ops = append(ops, kvOp{Op: "setprefix", T: kvTypes[rng.Intn(6)]})
		for i := 0; i < n; i++ {
			switch r := rng.Intn(100); {
			case r < 12:
				ops = append(ops, kvOp{Op: "setprefix", T: kvTypes[rng.Intn(6)]})
			case r < 24:
				ops = append(ops, kvOp{Op: "setsession", S: sids[rng.Intn(len(sids))]})
			case r < 29:
				ops = append(ops, kvOp{Op: "setlang", S: langs[rng.Intn(len(langs))]})
			case r < 32:
				ops = append(ops, kvOp{Op: "setctxlang", S: langs[rng.Intn(len(langs))]})
			case r < 37:
				ops = append(ops, kvOp{Op: "setlock", T: []int{0, 1, 2, 4, 8, 16, 9, 17, 3, 15, 63, 40}[rng.Intn(12)], B: rng.Intn(2) == 0}) // single types and combined masks
			case r < 65:
				nv++
				v := fmt.Sprintf("v%d", nv)
				if rng.Intn(4) == 0 {
					v = fmt.Sprintf("\x00\xff%d\n", nv) // binary value
				} else if rng.Intn(8) == 0 {
					v = "" // the empty value is a value
				}
				ops = append(ops, kvOp{Op: "put", K: keys[rng.Intn(len(keys))], V: v})
			case r < 94:
				ops = append(ops, kvOp{Op: "get", K: keys[rng.Intn(len(keys))]})
			default:
				ops = append(ops, kvOp{Op: "dump", K: []string{"", "b", "k", "x"}[rng.Intn(4)]})
			}
		}
		runKvSequence(ops, s, kvBackends, out, kinds)
	}
	summary(map[string]any{"sequences": nseq, "events": out.n, "distinct": len(kinds)})
	return nil
}

func init() {
	register("kv-run", cmdKvRun)
	register("kv-random", cmdKvRandom)
}
