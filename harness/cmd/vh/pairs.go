package main

// Two-run comparisons on the real engine (C07 mode equivalence, C17 "as if never sent"):
// the same client history is served twice and both transcripts are recorded in one "pair" line.

import (
	"bytes"
	"context"
	"encoding/json"
	"fmt"
	"hash/fnv"
	"math/rand"
	"os"

	"git.defalsify.org/vise.git/engine"
	"git.defalsify.org/vise.git/persist"
	"git.defalsify.org/vise.git/state"
	"git.defalsify.org/vise.git/vm"
)

type obsRec struct {
	Cont bool   `json:"cont"`
	Err  bool   `json:"err"`
	Ferr bool   `json:"ferr"`
	Out  string `json:"out"`
}

type pairEvent struct {
	Ev      string   `json:"ev"`
	Kind    string   `json:"kind"` // mode: long-lived vs persisted; insert: with vs without refused inputs
	Sid     string   `json:"sid"`
	Store   string   `json:"store"`
	Inputs  []string `json:"inputs"`
	Extra   []string `json:"extra"` // history b, when it differs (refused inputs inserted)
	A       []obsRec `json:"a"`
	B       []obsRec `json:"b"`
	ModeA   string   `json:"modea"`
	ModeB   string   `json:"modeb"`
	Partner string   `json:"partner"` // reuse pairs: the session that shared the persister
	Flush   bool     `json:"flush"`
	Pseed   string   `json:"pseed"` // kept-engine pairs: seed of the external-result schedule (for replay)
	After   string   `json:"after"` // kept-persister pairs: class (ok | bad | long) of the partner's request that directly preceded this session's first request
}

func hpick(seed int64, req, call, n int) int {
	h := fnv.New32a()
	fmt.Fprintf(h, "%d/%d/%d", seed, req, call)
	return int(h.Sum32()) % n
}

// serve runs one history; refused inputs do not count for the external-result schedule.
func serve(p *Program, sid string, mode string, store dbLike, inputs []string, pseed int64, out *ndw, stats *viseStats) []obsRec {
	rec := &sessRec{prog: p, sid: sid, out: out, stats: stats}
	acc, call := 0, 0
	h := newHost(p, rec, mode, store, func(sym string, n int) int {
		i := hpick(pseed, acc, call, n)
		call++
		if i < 0 {
			i = -i
		}
		return i
	})
	var obs []obsRec
	for _, in := range inputs {
		call = 0
		ev := h.request(in)
		if inputClass(in) == "ok" {
			obs = append(obs, obsRec{ev.Cont, ev.Err, ev.Ferr, ev.Out})
			acc++
			if ev.Panic != "" || !ev.Cont || ev.Err {
				break // end of the session: the comparison is defined up to here
			}
		} else if ev.Panic != "" {
			break
		}
	}
	if obs == nil {
		obs = []obsRec{}
	}
	return obs
}

// serveReuse serves two sessions alternately (A0 B0 A1 B1 ...) with a fresh engine per request but through ONE Persister
// object over one store, as an application that keeps its persister does: WithFlush (which promises that "the state and
// memory will be empty" after every successful Save), or without it for sessions the store already has.
// reuseDelay: number of requests of the first session served before the second session's first request (set by the caller
// around a call; 0 = strict alternation from the start)
var reuseDelay int

// reuseAfter: set by serveReuse - class of the first session's request that directly preceded the second session's first one
var reuseAfter string

func serveReuse(p *Program, sids [2]string, store dbLike, inputs [2][]string, pseeds [2]int64, flush bool, out *ndw, stats *viseStats, explicit ...[2][][]int) [2][]obsRec {
	var cur [2][]int // explicit external results of the current request (TLC histories), if given
	pe := persist.NewPersister(store)
	if flush {
		pe = pe.WithFlush()
	}
	var hosts [2]*engineHost
	var acc, call [2]int
	for k := 0; k < 2; k++ {
		k := k
		rec := &sessRec{prog: p, sid: sids[k], out: out, stats: stats}
		hosts[k] = newHost(p, rec, "R", store, func(sym string, n int) int {
			if len(explicit) > 0 {
				if len(cur[k]) == 0 {
					return 0
				}
				i := cur[k][0]
				cur[k] = cur[k][1:]
				return i
			}
			i := hpick(pseeds[k], acc[k], call[k], n)
			call[k]++
			if i < 0 {
				i = -i
			}
			return i
		})
		hosts[k].sharedPe = pe
	}
	var obs [2][]obsRec
	done := [2]bool{}
	pos := [2]int{}
	for !(done[0] && done[1]) {
		for k := 0; k < 2; k++ {
			if done[k] {
				continue
			}
			if k == 1 && pos[1] == 0 && pos[0] < reuseDelay && !done[0] {
				continue // the second session starts only after the first has served reuseDelay requests
			}
			if k == 1 && pos[1] == 0 {
				reuseAfter = ""
				if pos[0] > 0 {
					reuseAfter = inputClass(inputs[0][pos[0]-1])
				}
			}
			if pos[k] >= len(inputs[k]) {
				done[k] = true
				continue
			}
			in := inputs[k][pos[k]]
			// without WithFlush a kept persister still holds the session it served last, and a session that is NEW to the
			// store would be created from that content: the kept persister is used for sessions the store already has
			// (the first request of each session goes through a persister of its own)
			if !flush && pos[k] == 0 {
				hosts[k].mode = "P"
			} else {
				hosts[k].mode = "R"
			}
			cur[k] = nil
			if len(explicit) > 0 && pos[k] < len(explicit[0][k]) {
				cur[k] = append([]int{}, explicit[0][k][pos[k]]...)
			}
			pos[k]++
			call[k] = 0
			ev := hosts[k].request(in)
			if inputClass(in) == "ok" {
				obs[k] = append(obs[k], obsRec{ev.Cont, ev.Err, ev.Ferr, ev.Out})
				acc[k]++
				if ev.Panic != "" || !ev.Cont || ev.Err {
					done[k] = true
				}
			} else if ev.Panic != "" {
				done[k] = true
			}
		}
	}
	for k := 0; k < 2; k++ {
		if obs[k] == nil {
			obs[k] = []obsRec{}
		}
	}
	return obs
}

// VERIF_KEPT_INSERT=1 (set by the C17 check): histories with refused inputs are also served through a kept flushing persister
var keptInsert = os.Getenv("VERIF_KEPT_INSERT") == "1"

var refusedInputs = []string{"\x00", " 1", "*", "_", "<", "-1", "\xff", "\n", "é", "1\n", "0\r\n", "bob\nmallory", "2\n2", "#", "#x7", "# 7", "#7\n"}

// vise-pairs <trace-out> <programs> <sessions-per-program> <max-requests> <stores: mem[,fs][,pg]>
func cmdVisePairs(args []string) error {
	out, err := newNdw(args[0])
	if err != nil {
		return err
	}
	defer out.close()
	var nprog, nsess, maxreq int
	fmt.Sscan(args[1], &nprog)
	fmt.Sscan(args[2], &nsess)
	fmt.Sscan(args[3], &maxreq)
	stores := splitComma(args[4])
	rng := rand.New(rand.NewSource(seed()))
	vm.VerifHook = viseHook
	stats := &viseStats{Pairs: map[string]int{}}
	null, _ := newNdw(os.DevNull)
	defer null.close()
	npairs := 0
	type served struct {
		sid    string
		inputs []string
		pseed  int64
		b      []obsRec
		plain  []string
	}
	for pi := 0; pi < nprog; pi++ {
		var prev, prevI *served
		p := genProgram(rng, fmt.Sprintf("q%d_%d", seed(), pi))
		// a pre-VM check runs in the first Exec of every engine OBJECT: once in long-lived operation, in every request
		// in persisted operation - the two modes differ by design, so paired programs have none
		p.Engine.First = false
		delete(p.Syms, "_first")
		state.MaxLevel = 128
		out.put(map[string]any{"ev": "prog", "prog": p})
		for si := 0; si < nsess; si++ {
			n := 1 + rng.Intn(maxreq)
			inputs := []string{""}
			for j := 1; j < n; j++ {
				in := p.Inputs[rng.Intn(len(p.Inputs))]
				inputs = append(inputs, in)
			}
			pseed := rng.Int63()
			sid := fmt.Sprintf("%s.s%d", p.Name, si)
			st := stores[si%len(stores)]
			// C07: long-lived vs persisted
			a := serve(p, sid+".L", "L", newStore("mem", sid), inputs, pseed, out, stats)
			bstore, cleanup := newStoreC(st, sid)
			b := serve(p, sid+".P", "P", bstore, inputs, pseed, out, stats)
			cleanup()
			out.put(pairEvent{Ev: "pair", Kind: "mode", Sid: sid, Store: st, Inputs: encAll(inputs), Extra: []string{}, A: a, B: b, ModeA: "L", ModeB: "P"})
			npairs++
			// engine.Loop over the same history (lines decorated with white space that Loop trims), then the rest from the store
			if si%2 == 0 {
				raw := decorateLines(rng, inputs[:loopable(inputs)])
				nfeed := 1 + rng.Intn(len(raw))
				lev := serveLoop(p, sid, st, raw, rng.Intn(4) != 0, nfeed, si%4 == 0 || st != "mem", mkHashPicks(pseed), stats, null)
				lev.Pseed = fmt.Sprint(pseed)
				out.put(lev)
				npairs++
			}
			// C07: two sessions served alternately through one reused Persister object vs each with fresh persisters
			if prev != nil {
				rstore, rclean := newStoreC(st, sid+"r")
				r := serveReuse(p, [2]string{prev.sid + ".R", sid + ".R"}, rstore, [2][]string{prev.inputs, inputs}, [2]int64{prev.pseed, pseed}, si%4 < 2, out, stats)
				rclean()
				out.put(pairEvent{Ev: "pair", Kind: "reuse", Sid: prev.sid, Store: st, Inputs: encAll(prev.inputs), Extra: encAll(inputs), A: prev.b, B: r[0], ModeA: "P", ModeB: "R"})
				out.put(pairEvent{Ev: "pair", Kind: "reuse", Sid: sid, Store: st, Inputs: encAll(inputs), Extra: encAll(prev.inputs), A: b, B: r[1], ModeA: "P", ModeB: "R"})
				npairs += 2
				prev = nil
			} else {
				prev = &served{sid: sid, inputs: inputs, pseed: pseed, b: b}
			}
			// C17: refused inputs inserted at random positions, both modes
			var with []string
			for _, in := range inputs {
				for rng.Intn(3) == 0 {
					r := refusedInputs[rng.Intn(len(refusedInputs))]
					if rng.Intn(4) == 0 {
						r = string(make([]byte, 256+rng.Intn(45)))
						r = fmt.Sprintf("%0*d", len(r), 7)
					}
					with = append(with, r)
				}
				with = append(with, in)
			}
			if inputClass(with[0]) == "long" {
				with = append([]string{inputs[0]}, with...) // (an over-long FIRST input is refused before the session exists; keep histories aligned)
				with = with[1:]
			}
			m := []string{"L", "P"}[si%2]
			s2, cleanup2 := newStoreC(st, sid+"x")
			c := serve(p, sid+".I"+m, m, s2, with, pseed, out, stats)
			cleanup2()
			ref := a
			if m == "P" {
				ref = b
			}
			out.put(pairEvent{Ev: "pair", Kind: "insert", Sid: sid, Store: st, Inputs: encAll(inputs), Extra: encAll(with), A: ref, B: c, ModeA: m, ModeB: m})
			npairs++
			// C17 with a kept ENGINE: one engine object with a persister serves the whole history with its refused inputs (what a
			// caller of engine.Loop or a connection-oriented server has); reference: the long-lived transcript without them
			if si%3 == 0 {
				s3, cleanup3 := newStoreC(st, sid+"k")
				k := serveKept(p, sid+".K", s3, with, pseed, stats, null)
				cleanup3()
				out.put(pairEvent{Ev: "pair", Kind: "insert", Sid: sid, Store: st, Inputs: encAll(inputs), Extra: encAll(with), A: a, B: k, ModeA: "L", ModeB: "K", Pseed: fmt.Sprint(pseed)})
				npairs++
			}
			// C17 with a kept persister: the two histories WITH their refused inputs, alternating through one flushing Persister -
			// a refused request of one session is followed directly by a request of the other (also its very first one)
			if !keptInsert {
				// (only in the C17 check's runs)
			} else if prevI != nil {
				istore, iclean := newStoreC(st, sid+"i")
				// the second session is brand new to the store right after a refused request of the first one (the first refused
				// input from the third request on), if there is one
				reuseDelay = 0
				for j := 2; j < len(prevI.inputs); j++ {
					if inputClass(prevI.inputs[j]) != "ok" {
						reuseDelay = j + 1
						break
					}
				}
				r := serveReuse(p, [2]string{prevI.sid + ".RI", sid + ".RI"}, istore, [2][]string{prevI.inputs, with}, [2]int64{prevI.pseed, pseed}, true, out, stats)
				reuseDelay = 0
				iclean()
				out.put(pairEvent{Ev: "pair", Kind: "insert", Sid: prevI.sid, Store: st, Inputs: encAll(prevI.plain), Extra: encAll(prevI.inputs), A: prevI.b, B: r[0], ModeA: "P", ModeB: "R", Partner: sid, Flush: true})
				out.put(pairEvent{Ev: "pair", Kind: "insert", Sid: sid, Store: st, Inputs: encAll(inputs), Extra: encAll(with), A: b, B: r[1], ModeA: "P", ModeB: "R", Partner: prevI.sid, Flush: true, After: reuseAfter})
				npairs += 2
				prevI = nil
			} else {
				prevI = &served{sid: sid, inputs: with, pseed: pseed, b: b, plain: inputs}
			}
		}
	}
	summary(map[string]any{"programs": nprog, "pairs": npairs, "sessions": stats.Sessions, "requests": stats.Requests, "iterations": stats.Iterations,
		"panics": stats.Panics, "distinct_pairs": len(stats.Pairs), "events": out.n})
	return nil
}

// decorateLines puts white space that engine.Loop trims around some of the lines (never around the initial value)
func decorateLines(rng *rand.Rand, inputs []string) []string {
	raw := append([]string{}, inputs...)
	for i := 1; i < len(raw); i++ {
		switch rng.Intn(8) {
		case 0:
			raw[i] = " " + raw[i]
		case 1:
			raw[i] = raw[i] + " \t"
		case 2:
			raw[i] = "\t" + raw[i] + "\r"
		}
	}
	return raw
}

func encAll(xs []string) []string {
	r := make([]string, len(xs))
	for i, x := range xs {
		r[i] = enc(x)
	}
	return r
}

func splitComma(s string) []string {
	var r []string
	cur := ""
	for _, c := range s {
		if c == ',' {
			r = append(r, cur)
			cur = ""
		} else {
			cur += string(c)
		}
	}
	return append(r, cur)
}

func init() { register("vise-pairs", cmdVisePairs) }

// serveKept serves a history on ONE engine object that has a persister (no Finish between requests, one at the end).
func serveKept(p *Program, sid string, store dbLike, inputs []string, pseed int64, stats *viseStats, null *ndw) []obsRec {
	ctx := context.Background()
	rec := &sessRec{prog: p, sid: sid, out: null, stats: stats}
	acc, call := 0, 0
	h := newHost(p, rec, "L", store, func(sym string, n int) int {
		i := hpick(pseed, acc, call, n)
		call++
		if i < 0 {
			i = -i
		}
		return i
	})
	en := h.withOpts(engine.NewEngine(h.cfg, h.rs).WithPersister(persist.NewPersister(store)))
	saved := curSess
	curSess = nil
	defer func() { curSess = saved }()
	obs := []obsRec{}
	for _, in := range inputs {
		call = 0
		var o obsRec
		pan := false
		func() {
			defer func() {
				if r := recover(); r != nil {
					pan = true
					o.Err = true
				}
			}()
			cont, err := en.Exec(ctx, []byte(in))
			o.Cont, o.Err = cont, err != nil
			// (Flush is asked whatever Exec said, as the recorder of the other modes does)
			w := bytes.NewBuffer(nil)
			_, ferr := en.Flush(ctx, w)
			o.Ferr = ferr != nil
			o.Out = enc(w.String())
		}()
		if inputClass(in) == "ok" {
			obs = append(obs, o)
			acc++
			if pan || !o.Cont || o.Err {
				break
			}
		} else if pan {
			break
		}
	}
	func() {
		defer func() { recover() }()
		en.Finish(ctx)
	}()
	return obs
}

// vise-kept-case <program.json> <case.json> <trace-out>: replays one kept-engine pair (plain inputs, inputs with the refused ones,
// store, seed of the external-result schedule)
func cmdViseKeptCase(args []string) error {
	p, err := loadProgram(args[0])
	if err != nil {
		return err
	}
	b, err := os.ReadFile(args[1])
	if err != nil {
		return err
	}
	var c struct {
		Inputs []string `json:"inputs"`
		Extra  []string `json:"extra"`
		Store  string   `json:"store"`
		Pseed  string   `json:"pseed"`
	}
	if err := json.Unmarshal(b, &c); err != nil {
		return err
	}
	out, err := newNdw(args[2])
	if err != nil {
		return err
	}
	defer out.close()
	null, _ := newNdw(os.DevNull)
	defer null.close()
	state.MaxLevel = 128
	p.Engine.First = false
	delete(p.Syms, "_first")
	vm.VerifHook = viseHook
	stats := &viseStats{Pairs: map[string]int{}}
	var ps int64
	fmt.Sscan(c.Pseed, &ps)
	plain, with := make([]string, len(c.Inputs)), make([]string, len(c.Extra))
	for i, x := range c.Inputs {
		plain[i] = decIn(x)
	}
	for i, x := range c.Extra {
		with[i] = decIn(x)
	}
	sid := p.Name + ".replay"
	a := serve(p, sid+".L", "L", newStore("mem", sid), plain, ps, null, stats)
	s3, cleanup3 := newStoreC(c.Store, sid+"k")
	k := serveKept(p, sid+".K", s3, with, ps, stats, null)
	cleanup3()
	out.put(pairEvent{Ev: "pair", Kind: "insert", Sid: sid, Store: c.Store, Inputs: c.Inputs, Extra: c.Extra, A: a, B: k, ModeA: "L", ModeB: "K", Pseed: c.Pseed})
	summary(map[string]any{"pairs": 1, "events": out.n})
	return nil
}

func init() { register("vise-kept-case", cmdViseKeptCase) }

// servePicks is serve() with the external results given explicitly (per request, in call order), as TLC histories do.
func servePicks(p *Program, sid string, mode string, store dbLike, inputs []string, picks [][]int, out *ndw, stats *viseStats) []obsRec {
	rec := &sessRec{prog: p, sid: sid, out: out, stats: stats}
	var cur []int
	h := newHost(p, rec, mode, store, func(sym string, n int) int {
		if len(cur) == 0 {
			return 0
		}
		i := cur[0]
		cur = cur[1:]
		return i
	})
	obs := []obsRec{}
	for j, in := range inputs {
		cur = nil
		if j < len(picks) {
			cur = append([]int{}, picks[j]...)
		}
		ev := h.request(in)
		if inputClass(in) == "ok" {
			obs = append(obs, obsRec{ev.Cont, ev.Err, ev.Ferr, ev.Out})
			if ev.Panic != "" || !ev.Cont || ev.Err {
				break
			}
		} else if ev.Panic != "" {
			break
		}
	}
	return obs
}

// vise-pairs-hist <program.json> <histories.ndjson> <trace-out> <stores>: every given history served by one long-lived
// engine and by a fresh engine + Persister per request; one "pair" line each.
func cmdVisePairsHist(args []string) error {
	p, err := loadProgram(args[0])
	if err != nil {
		return err
	}
	out, err := newNdw(args[2])
	if err != nil {
		return err
	}
	defer out.close()
	stores := splitComma(args[3])
	pairall := len(args) > 4 && args[4] == "pairall"
	vm.VerifHook = viseHook
	stats := &viseStats{Pairs: map[string]int{}}
	if p.MaxLevel > 0 {
		state.MaxLevel = p.MaxLevel
	} else {
		state.MaxLevel = 128
	}
	null, _ := newNdw(os.DevNull)
	defer null.close()
	n := 0
	type pastHist struct {
		sid string
		h   history
		bb  []obsRec
	}
	var past []pastHist
	err = eachLine(args[1], func(b []byte) error {
		var h history
		if err := json.Unmarshal(b, &h); err != nil {
			return err
		}
		h.decode()
		sid := fmt.Sprintf("%s.h%d", p.Name, n)
		st := stores[n%len(stores)]
		n++
		a := servePicks(p, sid+".L", "L", newStore("mem", sid), h.Inputs, h.Picks, null, stats)
		bs, cleanup := newStoreC(st, sid)
		bb := servePicks(p, sid+".P", "P", bs, h.Inputs, h.Picks, null, stats)
		cleanup()
		out.put(pairEvent{Ev: "pair", Kind: "mode", Sid: sid, Store: st, Inputs: encAll(h.Inputs), Extra: []string{}, A: a, B: bb, ModeA: "L", ModeB: "P"})
		// every second history also through engine.Loop (as many lines as the history number says), the rest from the store
		if n%2 == 1 {
			raw := append([]string{}, h.Inputs[:loopable(h.Inputs)]...)
			if n%4 == 1 {
				raw = decorateLines(rand.New(rand.NewSource(int64(n))), raw)
			}
			lev := serveLoop(p, sid, st, raw, n%8 != 3, 1+(n/2)%len(raw), n%3 != 0, mkListPicks(h.Picks), stats, null)
			lev.Picks = h.Picks
			if lev.Picks == nil {
				lev.Picks = [][]int{}
			}
			out.put(lev)
		}
		// every third history is also served alternately with an earlier, different history through ONE kept Persister
		// (flushed, or unflushed for sessions the store already has) and compared with its per-request-persister transcript
		past = append(past, pastHist{sid, h, bb})
		if n%3 == 0 && len(past) > 11 {
			q := past[len(past)-12]
			rs, rclean := newStoreC(st, sid+"r")
			r := serveReuse(p, [2]string{q.sid + ".R", sid + ".R"}, rs, [2][]string{q.h.Inputs, h.Inputs}, [2]int64{}, n%2 == 0, null, stats, [2][][]int{q.h.Picks, h.Picks})
			rclean()
			out.put(pairEvent{Ev: "pair", Kind: "reuse", Sid: q.sid, Store: st, Inputs: encAll(q.h.Inputs), Extra: encAll(h.Inputs), A: q.bb, B: r[0], ModeA: "P", ModeB: "R", Partner: sid, Flush: n%2 == 0})
			out.put(pairEvent{Ev: "pair", Kind: "reuse", Sid: sid, Store: st, Inputs: encAll(h.Inputs), Extra: encAll(q.h.Inputs), A: bb, B: r[1], ModeA: "P", ModeB: "R", Partner: q.sid, Flush: n%2 == 0})
		}
		if pairall && n%2 == 0 && len(past) >= 2 {
			// replay form: the file holds pairs of histories; each pair shares a persister, flushed and unflushed
			q := past[len(past)-2]
			kind := "reuse"
			for _, in := range append(append([]string{}, q.h.Inputs...), h.Inputs...) {
				if inputClass(in) != "ok" {
					kind = "insert" // histories with refused inputs: judged as "as if never sent"
				}
			}
			for _, fl := range []bool{true, false} {
				rs, rclean := newStoreC(st, sid+"r")
				reuseDelay = h.Delay
				r := serveReuse(p, [2]string{q.sid + ".R", sid + ".R"}, rs, [2][]string{q.h.Inputs, h.Inputs}, [2]int64{}, fl, null, stats, [2][][]int{q.h.Picks, h.Picks})
				reuseDelay = 0
				rclean()
				out.put(pairEvent{Ev: "pair", Kind: kind, Sid: q.sid, Store: st, Inputs: encAll(q.h.Inputs), Extra: encAll(h.Inputs), A: q.bb, B: r[0], ModeA: "P", ModeB: "R", Partner: sid, Flush: fl})
				out.put(pairEvent{Ev: "pair", Kind: kind, Sid: sid, Store: st, Inputs: encAll(h.Inputs), Extra: encAll(q.h.Inputs), A: bb, B: r[1], ModeA: "P", ModeB: "R", Partner: q.sid, Flush: fl, After: reuseAfter})
			}
		}
		if len(past) > 16 {
			past = past[1:]
		}
		return nil
	})
	summary(map[string]any{"pairs": n, "requests": stats.Requests, "iterations": stats.Iterations, "panics": stats.Panics, "events": out.n})
	return err
}

func init() { register("vise-pairs-hist", cmdVisePairsHist) }
