package main

// Assembler driver (C16): prints abstract source lines to assembly text, runs the real asm.Parse,
// decodes the produced bytes with the harness's own decoder.

import (
	"bytes"
	"encoding/json"
	"fmt"
	"math/rand"
	"strings"

	"git.defalsify.org/vise.git/asm"
)

type srcLine struct {
	Op string `json:"op"`
	A  string `json:"a"`
	B  string `json:"b"`
	N  int    `json:"n"`
	M  int    `json:"m"`
	C  string `json:"c"`
}

type asmInstr struct {
	Op string `json:"op"`
	A  string `json:"a"`
	B  string `json:"b"`
	N  int    `json:"n"`
	M  int    `json:"m"`
}

type asmEvent struct {
	Ev    string     `json:"ev"`
	Src   []srcLine  `json:"src"`
	Text  string     `json:"text"`
	Ok    bool       `json:"ok"`
	Panic string     `json:"panic"`
	Dec   []asmInstr `json:"dec"`
	DecOk bool       `json:"decok"`
}

func (l srcLine) text() string {
	switch l.Op {
	case "HALT", "MSINK":
		return l.Op
	case "RELOAD", "MAP", "MOVE":
		return l.Op + " " + l.A
	case "INCMP", "MOUT", "MNEXT", "MPREV", "UP", "NEXT", "PREVIOUS":
		return l.Op + " " + l.A + " " + l.B
	case "LOAD":
		return fmt.Sprintf("LOAD %s %d", l.A, l.N)
	case "CATCH":
		return fmt.Sprintf("CATCH %s %d %d", l.A, l.N, l.M)
	case "CROAK":
		return fmt.Sprintf("CROAK %d %d", l.N, l.M)
	case "DOWN":
		return "DOWN " + l.A + " " + l.B + " " + l.C
	}
	panic("unknown source op " + l.Op)
}

var asmCases int

func asmCase(src []srcLine, rng *rand.Rand) asmEvent {
	ev := asmEvent{Ev: "asm", Src: src, Dec: []asmInstr{}}
	for i, l := range src {
		ev.Text += l.text()
		if rng != nil && rng.Intn(5) == 0 {
			ev.Text += " # comment " + fmt.Sprint(i)
		}
		ev.Text += "\n"
		if rng != nil && rng.Intn(6) == 0 {
			ev.Text += "\n"
		}
	}
	// The assembler is a library: a process assembles many sources, and some of them are rejected.  Every few cases a
	// source that the assembler refuses half way through an instruction (over-long symbol, bad number, unknown word,
	// unterminated batch) is assembled FIRST; what was written for this case must still be what comes out.
	asmCases++
	if asmCases%3 == 0 {
		long := strings.Repeat("x", 256)
		poison := []string{"LOAD " + long + " 0\n", "INCMP " + long + " 1\n", "MOUT " + long + " 0\n", "CATCH " + long + " 8 1\n", "MNEXT " + long + " 11\n",
			"LOAD foo\n", "CATCH foo bar 1\n", "FROB foo\n", "DOWN foo\n", "MOVE " + long + "\n", "LOAD foo 1 2 3\nHALT\n"}
		func() {
			defer func() { recover() }()
			asm.Parse(poison[(asmCases/3)%len(poison)], bytes.NewBuffer(nil))
		}()
	}
	w := bytes.NewBuffer(nil)
	func() {
		defer func() {
			if r := recover(); r != nil {
				ev.Panic = fmt.Sprint(r)
			}
		}()
		_, err := asm.Parse(ev.Text, w)
		ev.Ok = err == nil
	}()
	if ev.Ok {
		d, ok := decode(w.Bytes())
		ev.DecOk = ok
		for _, in := range d {
			ev.Dec = append(ev.Dec, asmInstr{in.Op, in.A, in.B, in.N, in.M})
		}
	}
	return ev
}

// asm-cases <cases.ndjson> <trace-out>
func cmdAsmCases(args []string) error {
	out, err := newNdw(args[1])
	if err != nil {
		return err
	}
	defer out.close()
	rng := rand.New(rand.NewSource(seed()))
	err = eachLine(args[0], func(b []byte) error {
		var c struct {
			Src []srcLine `json:"src"`
		}
		if err := json.Unmarshal(b, &c); err != nil {
			return err
		}
		out.put(asmCase(c.Src, nil))
		if len(c.Src) > 1 {
			out.put(asmCase(c.Src, rng)) // the same program with comments and blank lines
		}
		return nil
	})
	summary(map[string]any{"cases": out.n})
	return err
}

// asm-random <trace-out> <programs>: longer random programs from the documented grammar
func cmdAsmRandom(args []string) error {
	out, err := newNdw(args[0])
	if err != nil {
		return err
	}
	defer out.close()
	var n int
	fmt.Sscan(args[1], &n)
	rng := rand.New(rand.NewSource(seed()))
	// (symbols of 127, 128, 200 and 255 bytes: the one-byte length prefix on both sides of its sign bit and at its end)
	syms := []string{"foo", "bar", "ba_r9", "xyzzy", "a", "inky_pinky", "n0", "zz9", "_catch",
		"s" + strings.Repeat("x", 126), "t" + strings.Repeat("y", 127), "u" + strings.Repeat("z", 199), "v" + strings.Repeat("w", 254)}
	sels := []string{"0", "1", "2", "9", "10", "11", "22", "99", "1234", "a", "ab", "x1", "a1b2", "zz", "*", "00", "007", "1a", "2b3", "010"}
	pick := func(xs []string) string { return xs[rng.Intn(len(xs))] }
	for i := 0; i < n; i++ {
		var src []srcLine
		nl := 1 + rng.Intn(25)
		nbatch := rng.Intn(5) // batch menu lines come at the end of a node's code
		choose := func() string {
			sel := pick(sels)
			if rng.Intn(3) != 0 {
				sel = pick(sels[:15]) // mostly selectors the assembler handles
			}
			return sel
		}
		for k := 0; k < nl; k++ {
			sel := choose()
			nosel := sel
			if nosel == "*" {
				nosel = "7"
			}
			switch rng.Intn(10) {
			case 0:
				src = append(src, srcLine{Op: "HALT"})
			case 1:
				src = append(src, srcLine{Op: "MSINK"})
			case 2:
				src = append(src, srcLine{Op: pick([]string{"RELOAD", "MAP"}), A: pick(syms)})
			case 3:
				src = append(src, srcLine{Op: "MOVE", A: pick(append(syms, "_", "^", ".", ">", "<"))})
			case 4, 5:
				src = append(src, srcLine{Op: "INCMP", A: pick(append(syms, "_", "^", ".", ">", "<")), B: sel})
			case 6:
				src = append(src, srcLine{Op: pick([]string{"MOUT", "MNEXT", "MPREV"}), A: pick(syms), B: nosel})
			case 7:
				src = append(src, srcLine{Op: "LOAD", A: pick(syms), N: []int{0, 1, 5, 255, 256, 65535, 65536, 16777215, 16777216, 2147483647}[rng.Intn(10)]})
			case 8:
				src = append(src, srcLine{Op: "CATCH", A: pick(syms), N: rng.Intn(400), M: rng.Intn(2)})
			case 9:
				src = append(src, srcLine{Op: "CROAK", N: rng.Intn(400), M: rng.Intn(2)})
			}
		}
		for k := 0; k < nbatch; k++ {
			nosel := choose()
			if nosel == "*" {
				nosel = "7"
			}
			if rng.Intn(3) == 0 {
				src = append(src, srcLine{Op: "DOWN", A: pick(syms), B: nosel, C: pick(syms)})
			} else {
				src = append(src, srcLine{Op: pick([]string{"UP", "NEXT", "PREVIOUS"}), A: nosel, B: pick(syms)})
			}
		}
		if nbatch > 0 && i%3 == 0 {
			// the one batch group need not be last: ordinary instructions after it assemble as written, the group once
			for k, na := 0, 1+rng.Intn(3); k < na; k++ {
				if rng.Intn(2) == 0 {
					src = append(src, srcLine{Op: "INCMP", A: pick(append(syms, "_", "^", ".")), B: choose()})
				} else {
					src = append(src, srcLine{Op: "MOVE", A: pick(syms)})
				}
			}
		}
		out.put(asmCase(src, rng))
	}
	summary(map[string]any{"cases": out.n})
	return nil
}

func init() {
	register("asm-cases", cmdAsmCases)
	register("asm-random", cmdAsmRandom)
}
