// Command vh is the Go side of the go-vise verification harness: it drives the real
// library (recorders: code -> ndjson trace; replayers: TLC behaviours -> real code -> ndjson trace).
// It never decides a property; traces are judged by the TLA+ trace specifications.
package main

import (
	"bufio"
	"bytes"
	"encoding/json"
	"fmt"
	"io"
	"log"
	"os"
	"strconv"

	"git.defalsify.org/vise.git/logging"
)

type command func(args []string) error

var commands = map[string]command{}

func register(name string, c command) { commands[name] = c }

func seed() int64 {
	s, err := strconv.ParseInt(os.Getenv("VERIF_SEED"), 10, 64)
	if err != nil {
		return 1
	}
	return s
}

func main() {
	logging.LogWriter = io.Discard
	log.SetOutput(io.Discard)
	if len(os.Args) < 2 {
		fmt.Fprintln(os.Stderr, "usage: vh <command> [args]")
		for k := range commands {
			fmt.Fprintln(os.Stderr, "  ", k)
		}
		os.Exit(2)
	}
	c, ok := commands[os.Args[1]]
	if !ok {
		fmt.Fprintln(os.Stderr, "unknown command", os.Args[1])
		os.Exit(2)
	}
	if err := c(os.Args[2:]); err != nil {
		fmt.Fprintln(os.Stderr, "vh:", err)
		os.Exit(2)
	}
}

// ndjson writer
type ndw struct {
	f *os.File
	w *bufio.Writer
	n int
}

func newNdw(path string) (*ndw, error) {
	f, err := os.Create(path)
	if err != nil {
		return nil, err
	}
	return &ndw{f: f, w: bufio.NewWriterSize(f, 1<<20)}, nil
}

func (o *ndw) put(v any) {
	b, err := json.Marshal(v)
	if err != nil {
		panic(err)
	}
	if bytes.Contains(b, []byte("null")) {
		// TLC's Json module rejects null: nil slices/maps become empty arrays
		var x any
		if json.Unmarshal(b, &x) == nil {
			b, _ = json.Marshal(denull(x))
		}
	}
	o.w.Write(b)
	o.w.WriteByte('\n')
	o.n++
}

func denull(x any) any {
	switch t := x.(type) {
	case nil:
		return []any{}
	case map[string]any:
		for k, v := range t {
			t[k] = denull(v)
		}
	case []any:
		for i, v := range t {
			t[i] = denull(v)
		}
	}
	return x
}

func (o *ndw) close() {
	o.w.Flush()
	o.f.Close()
}

// read json lines, calling fn with the raw line
func eachLine(path string, fn func([]byte) error) error {
	f, err := os.Open(path)
	if err != nil {
		return err
	}
	defer f.Close()
	sc := bufio.NewScanner(f)
	sc.Buffer(make([]byte, 1<<24), 1<<28)
	for sc.Scan() {
		b := sc.Bytes()
		if len(b) == 0 {
			continue
		}
		if err := fn(b); err != nil {
			return err
		}
	}
	return sc.Err()
}

func summary(v any) {
	b, _ := json.Marshal(v)
	fmt.Println("SUMMARY " + string(b))
}
