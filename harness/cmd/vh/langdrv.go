package main

// Language driver (C18, end to end): a small application served from the real resource.DbResource over the memory backend,
// with translations present for a random subset of templates, menu labels and static symbols; the rendered text of every
// request is parsed back into (kind, symbol, variant) tags.

import (
	"bytes"
	"context"
	"fmt"
	"math/rand"
	"regexp"

	"git.defalsify.org/vise.git/db"
	"git.defalsify.org/vise.git/db/mem"
	"git.defalsify.org/vise.git/engine"
	"git.defalsify.org/vise.git/lang"
	"git.defalsify.org/vise.git/persist"
	"git.defalsify.org/vise.git/resource"
	"git.defalsify.org/vise.git/state"
	"git.defalsify.org/vise.git/vm"
)

type langKey struct {
	Kind string `json:"kind"`
	Sym  string `json:"sym"`
	Lang string `json:"lang"`
}
type langTag struct {
	Kind    string `json:"kind"`
	Sym     string `json:"sym"`
	Variant string `json:"variant"`
}
type langEvent struct {
	Ev         string    `json:"ev"`
	Sid        string    `json:"sid"`
	Req        int       `json:"req"`
	Mode       string    `json:"mode"`
	Input      string    `json:"input"`
	Lang       string    `json:"lang"` // session language after the request
	LangBefore string    `json:"langbefore"`
	Cont       bool      `json:"cont"`
	Err        bool      `json:"err"`
	Out        string    `json:"out"`
	Translated []langKey `json:"translated"`
	Tags       []langTag `json:"tags"`
	Why        string    `json:"why"` // text of the error, if any
	// engine.Config.Language of the application ("" = none), the language observed after the PREVIOUS request of the session
	// (copied, not computed), and the codes the language-switching function returned during this request, in order
	CfgLang string   `json:"cfglang"`
	Prev    string   `json:"prev"`
	Calls   []string `json:"calls"`
}

var tagRe = regexp.MustCompile(`\[(T|L|S):([a-z0-9_]+):([a-z]+)\]`)

// lang-run <trace-out> <apps> <sessions-per-app> <max-requests>
func cmdLangRun(args []string) error {
	out, err := newNdw(args[0])
	if err != nil {
		return err
	}
	defer out.close()
	var napps, nsess, maxreq int
	fmt.Sscan(args[1], &napps)
	fmt.Sscan(args[2], &nsess)
	fmt.Sscan(args[3], &maxreq)
	rng := rand.New(rand.NewSource(seed()))
	ctx := context.Background()
	langs := []string{"nor", "fra", "swa", "eng"} // (eng is the library's default-language code: a session in it still gets its own translations)
	nodes := map[string][]Instr{
		"root": {{Op: "MOUT", A: "item", B: "1"}, {Op: "MOUT", A: "other", B: "2"}, {Op: "HALT"}, {Op: "INCMP", A: "sw", B: "1"}, {Op: "INCMP", A: "sub", B: "2"}, {Op: "INCMP", A: "quit", B: "3"}},
		// (sub is only entered from root and only left upwards: the static symbol is loaded afresh, in the language the session
		// has at that request, every time the node is shown - a symbol still visible from an earlier visit would rightly be kept)
		"sw":     {{Op: "LOAD", A: "setlang", N: 0}, {Op: "MOUT", A: "back", B: "0"}, {Op: "HALT"}, {Op: "INCMP", A: "_", B: "0"}, {Op: "INCMP", A: "_", B: "2"}},
		"sub":    {{Op: "LOAD", A: "txt", N: 0}, {Op: "MAP", A: "txt"}, {Op: "MOUT", A: "back", B: "0"}, {Op: "HALT"}, {Op: "INCMP", A: "_", B: "0"}, {Op: "INCMP", A: "_", B: "1"}},
		"_catch": {{Op: "MOUT", A: "back", B: "0"}, {Op: "HALT"}, {Op: "INCMP", A: "_", B: "*"}},
		// the program runs to its end here: the page is shown, the session starts over with the next request - in the language
		// it had
		// (HALT as the last instruction is the graceful end: Exec returns false, Flush shows the page and restarts the state)
		"quit": {{Op: "MOUT", A: "item", B: "1"}, {Op: "HALT"}},
	}
	nreqs := 0
	for ai := 0; ai < napps; ai++ {
		store := mem.NewMemDb()
		store.Connect(ctx, "")
		for _, t := range []uint8{db.DATATYPE_BIN, db.DATATYPE_TEMPLATE, db.DATATYPE_MENU, db.DATATYPE_STATICLOAD} {
			store.SetLock(t, false)
		}
		translated := []langKey{}
		put := func(typ uint8, key string, kind string, sym string) {
			store.SetPrefix(typ)
			store.SetLanguage(nil)
			store.Put(ctx, []byte(key), []byte(fmt.Sprintf("[%s:%s:default]", kind, sym)))
			for _, lc := range langs {
				if rng.Intn(2) == 0 {
					l, _ := lang.LanguageFromCode(lc)
					store.SetLanguage(&l)
					store.Put(ctx, []byte(key), []byte(fmt.Sprintf("[%s:%s:%s]", kind, sym, lc)))
					translated = append(translated, langKey{kind, sym, lc})
				}
			}
			store.SetLanguage(nil)
		}
		for n, ins := range nodes {
			var b []byte
			for i := range ins {
				ins[i].Ac = targetClass(ins[i].A)
				b = ins[i].bytes(b)
			}
			store.SetPrefix(db.DATATYPE_BIN)
			store.Put(ctx, []byte(n), b)
		}
		for _, n := range []string{"root", "sw", "_catch", "quit"} {
			put(db.DATATYPE_TEMPLATE, n, "T", n)
		}
		// the template of sub shows the static symbol
		store.SetPrefix(db.DATATYPE_TEMPLATE)
		store.Put(ctx, []byte("sub"), []byte("[T:sub:default] {{.txt}}"))
		for _, lc := range langs {
			if rng.Intn(2) == 0 {
				l, _ := lang.LanguageFromCode(lc)
				store.SetLanguage(&l)
				store.Put(ctx, []byte("sub"), []byte(fmt.Sprintf("[T:sub:%s] {{.txt}}", lc)))
				translated = append(translated, langKey{"T", "sub", lc})
				store.SetLanguage(nil)
			}
		}
		for _, m := range []string{"item", "other", "back"} {
			put(db.DATATYPE_MENU, m+"_menu", "L", m)
		}
		put(db.DATATYPE_STATICLOAD, "txt", "S", "txt")
		store.SetLock(0, true) // seal
		// mode "S": persisted operation with ONE resource object kept by the application for all requests of all sessions
		sharedRs := resource.NewDbResource(store).With(db.DATATYPE_STATICLOAD)
		for si := 0; si < nsess; si++ {
			mode := []string{"L", "P", "S"}[si%3]
			sid := fmt.Sprintf("a%d.s%d", ai, si)
			// every other application has a configured default language (the sessions of one application follow each other:
			// what one session selects must not reach the next one)
			cfgLang := ""
			if ai%2 == 1 {
				cfgLang = []string{"nor", "swa", "eng"}[(ai/2)%3]
			}
			var calls []string
			codes := []string{"nor", "fra", "xx", "swa", "en", "no", "eng"}
			ncall := rng.Intn(6)
			setlang := func(ctx context.Context, sym string, input []byte) (resource.Result, error) {
				c := codes[ncall%len(codes)]
				ncall++
				calls = append(calls, c)
				return resource.Result{Content: c, FlagSet: []uint32{state.FLAG_LANG}}, nil
			}
			stateStore := newMemStore()
			var en *engine.DefaultEngine
			var st *state.State
			prevLang := ""
			in := ""
			n := 1 + rng.Intn(maxreq)
			if si%4 == 3 && n < 6 {
				n = 6
			}
			for j := 0; j < n; j++ {
				var pe *persist.Persister
				if mode != "L" || en == nil {
					rs := resource.NewDbResource(store).With(db.DATATYPE_STATICLOAD)
					if mode == "S" {
						rs = sharedRs
					}
					rs.AddLocalFunc("setlang", setlang)
					en = engine.NewEngine(engine.Config{Root: "root", FlagCount: 2, SessionId: sid, Language: cfgLang}, rs)
					if mode != "L" {
						pe = persist.NewPersister(stateStore)
						en = en.WithPersister(pe)
					} else {
						// (after the end of the program the application makes a new engine object around the state it keeps)
						if st == nil {
							st = state.NewState(2)
						}
						en = en.WithState(st)
					}
				}
				calls = []string{}
				ev := langEvent{Ev: "langout", Sid: sid, Req: j, Mode: mode, Input: enc(in), Translated: translated, Tags: []langTag{}, CfgLang: cfgLang, Prev: prevLang}
				if st != nil && st.Language != nil {
					ev.LangBefore = st.Language.Code
				} else if j == 0 {
					ev.LangBefore = cfgLang
				}
				vm.VerifHook = nil
				func() {
					defer func() {
						if r := recover(); r != nil {
							ev.Err = true
							ev.Out = enc(fmt.Sprint("PANIC ", r))
						}
					}()
					cont, err := en.Exec(ctx, []byte(in))
					ev.Cont, ev.Err = cont, err != nil
					w := bytes.NewBuffer(nil)
					if err == nil {
						_, ferr := en.Flush(ctx, w)
						ev.Err = ferr != nil
						if ferr != nil {
							ev.Why = "flush: " + ferr.Error()
						}
					} else {
						ev.Why = "exec: " + err.Error()
					}
					if mode != "L" {
						st = pe.GetState()
						// in persisted mode the resource handle is shared: do not close it (Finish closes the resource's db)
						pe.Save(sid)
					}
					ev.Out = enc(w.String())
					for _, m := range tagRe.FindAllStringSubmatch(w.String(), -1) {
						ev.Tags = append(ev.Tags, langTag{m[1], m[2], m[3]})
					}
				}()
				if st != nil && st.Language != nil {
					ev.Lang = st.Language.Code
				}
				ev.Calls = calls
				prevLang = ev.Lang
				out.put(ev)
				nreqs++
				if ev.Err {
					break
				}
				in = []string{"1", "2", "0", "1", "2", "9", "", "3", "3", "0"}[rng.Intn(10)]
				if !ev.Cont {
					in = "" // the session has ended: the client dials in again
					en = nil
				}
				// every fourth session begins with: select a language, go back, run the program to its end, dial in again
				if script := []string{"1", "0", "3", "", "2"}; si%4 == 3 && j < len(script) {
					in = script[j]
				}
			}
		}
	}
	summary(map[string]any{"apps": napps, "requests": nreqs, "events": out.n})
	return nil
}

func init() { register("lang-run", cmdLangRun) }
