-------------------------------- MODULE KvInj --------------------------------
(* C11: the storage-key encoding must be injective on <<type, session, key>>. *)
(* All session ids and keys up to MaxLen over an adversarial alphabet; every  *)
(* colliding pair is emitted for replay on the real backends.                 *)
EXTENDS KvStore, Json
CONSTANTS Alphabet, MaxLen, InjTypes
Strs == UNION {[1..n -> Alphabet] : n \in 0..MaxLen}
VARIABLES a, b
Init == a \in [t : InjTypes, s : Strs, k : Strs \ {<<>>}] /\ b = a
Next == b = a /\ b' \in [t : InjTypes, s : Strs, k : Strs \ {<<>>}] /\ UNCHANGED a
Spec == Init /\ [][Next]_<<a, b>>
Norm(x) == [x EXCEPT !.s = IF Sessioned(x.t) THEN @ ELSE <<>>]
Collide == Norm(a) # Norm(b) /\ SK(a.t, a.s, a.k) = SK(b.t, b.s, b.k)
\* the known family: the separator between session id and key is a character sessions and keys may contain
DotAmbiguous == Sessioned(a.t) /\ a.t = b.t /\ ("." \in {a.s[i] : i \in DOMAIN a.s} \cup {a.k[i] : i \in DOMAIN a.k}
                                                 \cup {b.s[i] : i \in DOMAIN b.s} \cup {b.k[i] : i \in DOMAIN b.k})
C11_Injective == Collide => DotAmbiguous
Emit == Collide' => PrintT(<<"MBT", ToJson([a |-> a', b |-> b'])>>)
=============================================================================
