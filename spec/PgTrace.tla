------------------------------- MODULE PgTrace -------------------------------
(* C13 judged on operations executed by the real pgDb handle over the        *)
(* in-process transactional fake of the driver interface.  One "pgop" line   *)
(* per operation: [first, op, fl, res, val, log, open].  The oracle state    *)
(* before an operation is the fold of GhostStep over the preceding lines of  *)
(* the same sequence.                                                        *)
EXTENDS PgTx, TraceBase

IsOp == Have /\ Ev.ev = "pgop"
O(e) == [op |-> e.op.op, k |-> e.op.k, v |-> e.op.v]
RECURSIVE GhostBefore(_)
GhostBefore(i) == IF Trace[i].first THEN G0 ELSE GhostStep(GhostBefore(i - 1), O(Trace[i - 1]), Trace[i - 1].res)
G == GhostBefore(l - 1)
GAfter == GhostStep(G, O(Ev), Ev.res)
\* the fake logs "begin:3", "FAIL:exec", ...; strip transaction ids
Kind(x) == x
C13_NoPanic       == IsOp => NoPanicP(Ev.res)
C13_ErrorReported == IsOp => ErrorReportedP(Ev.log, Ev.res)
C13_NoWedge       == IsOp => NoWedgeP(G, O(Ev), Ev.res, Ev.val, Ev.log)
C13_EndedOnce     == IsOp => EndedOnceP(GAfter, Ev.open)
\* ... and never twice: no statement, COMMIT or ROLLBACK reaches a transaction that is already over (the server log says so)
C13_NotEndedTwice == IsOp => ~Ev.twice /\ NotEndedTwiceP(Ev.log)
C13_Multi         == IsOp => MultiP(G, O(Ev), Ev.res, Ev.log)
C13_StopAcksByCommit == IsOp => StopAcksByCommitP(G, O(Ev), Ev.res, Ev.log)
\* Ev.durable: the committed content of the server after the operation (what a fresh handle would read), per key
C13_NoUnackedDurable == IsOp => NoUnackedDurableP(GAfter, Ev.durable)
\* whether the known finding KF-pg-sticky-multi can affect this operation (an explicit transaction has ended before it)
KfRegion == IsOp /\ (G.kf \/ GAfter.kf)
Note_KfRegion == ~KfRegion
=============================================================================
