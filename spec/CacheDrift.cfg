SPECIFICATION TraceSpec
INVARIANTS Drift_Step
CHECK_DEADLOCK FALSE
