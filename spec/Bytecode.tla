------------------------------ MODULE Bytecode ------------------------------
(***************************************************************************)
(* The bytecode format of go-vise: instruction records <-> byte sequences. *)
(*   instruction = 2-byte big-endian opcode + arguments                    *)
(*   symbol      = length byte 1..255 + that many bytes                    *)
(*   integer     = length byte w in 0..4 + the w low-order bytes, big       *)
(*                 endian (w = 0 and zero-padded fields decode to the same *)
(*                 value: decoding is many-to-one; encoders use the        *)
(*                 minimal width, 0 as one zero byte)                      *)
(*   match mode  = one byte, non-zero = TRUE                               *)
(* 32-bit integers are 4-tuples of bytes (TLC integers are 32-bit signed). *)
(* instr = [op, a, b, n, m]: a, b byte sequences; n a 4-tuple; m in {0,1}  *)
(***************************************************************************)
EXTENDS Integers, Sequences, FiniteSets, TLC

NOOP == 0  CATCH == 1  CROAK == 2  LOAD == 3  RELOAD == 4  MAP == 5  MOVE == 6
HALT == 7  INCMP == 8  MSINK == 9  MOUT == 10  MNEXT == 11  MPREV == 12
MaxOp == 12
Zero4 == <<0, 0, 0, 0>>
Instr(op, a, b, n, m) == [op |-> op, a |-> a, b |-> b, n |-> n, m |-> m]

\* argument shape of each opcode
Shape(op) == CASE op \in {NOOP, HALT, MSINK} -> "none"
               [] op \in {RELOAD, MAP, MOVE} -> "sym"
               [] op \in {INCMP, MOUT, MNEXT, MPREV} -> "symsym"
               [] op = LOAD -> "symint"
               [] op = CATCH -> "symintmode"
               [] op = CROAK -> "intmode"

(* ---- encoding *)
RECURSIVE StripZeros(_)
StripZeros(q) == IF Len(q) > 1 /\ q[1] = 0 THEN StripZeros(Tail(q)) ELSE q
Width(v) == Len(StripZeros(v))                     \* 1..4
EncInt(v) == LET s == StripZeros(v) IN <<Len(s)>> \o s
EncSym(s) == <<Len(s)>> \o s
EncOp(op) == <<op \div 256, op % 256>>
Enc(i) == EncOp(i.op) \o
          (CASE Shape(i.op) = "none" -> <<>>
             [] Shape(i.op) = "sym" -> EncSym(i.a)
             [] Shape(i.op) = "symsym" -> EncSym(i.a) \o EncSym(i.b)
             [] Shape(i.op) = "symint" -> EncSym(i.a) \o EncInt(i.n)
             [] Shape(i.op) = "symintmode" -> EncSym(i.a) \o EncInt(i.n) \o <<i.m>>
             [] Shape(i.op) = "intmode" -> EncInt(i.n) \o <<i.m>>)
RECURSIVE EncAll(_)
EncAll(p) == IF p = <<>> THEN <<>> ELSE Enc(Head(p)) \o EncAll(Tail(p))

(* ---- decoding: D = [ok, v, rest] *)
Rej == [ok |-> FALSE, v |-> <<>>, rest |-> <<>>]
Acc(v, rest) == [ok |-> TRUE, v |-> v, rest |-> rest]
From(b, k) == SubSeq(b, k, Len(b))
Pad4(q) == [i \in 1..4 |-> IF i <= 4 - Len(q) THEN 0 ELSE q[i - (4 - Len(q))]]
DecSym(b) == IF b = <<>> THEN Rej
             ELSE LET n == b[1] IN IF n = 0 \/ Len(b) < 1 + n THEN Rej ELSE Acc(SubSeq(b, 2, 1 + n), From(b, 2 + n))
DecInt(b) == IF b = <<>> THEN Rej
             ELSE LET w == b[1] IN IF w > 4 \/ Len(b) < 1 + w THEN Rej       \* an over-long or truncated integer is rejected
                                   ELSE Acc(Pad4(SubSeq(b, 2, 1 + w)), From(b, 2 + w))
DecMode(b) == IF b = <<>> THEN Rej ELSE Acc(IF b[1] > 0 THEN 1 ELSE 0, Tail(b))
\* one instruction
DecInstr(b) ==
  IF Len(b) < 2 THEN Rej
  ELSE LET op == b[1] * 256 + b[2]   r == From(b, 3) IN
       IF op > MaxOp THEN Rej
       ELSE CASE Shape(op) = "none" -> Acc(Instr(op, <<>>, <<>>, Zero4, 0), r)
              [] Shape(op) = "sym" -> LET a == DecSym(r) IN IF ~a.ok THEN Rej ELSE Acc(Instr(op, a.v, <<>>, Zero4, 0), a.rest)
              [] Shape(op) = "symsym" -> LET a == DecSym(r) IN IF ~a.ok THEN Rej ELSE
                                         LET c == DecSym(a.rest) IN IF ~c.ok THEN Rej ELSE Acc(Instr(op, a.v, c.v, Zero4, 0), c.rest)
              [] Shape(op) = "symint" -> LET a == DecSym(r) IN IF ~a.ok THEN Rej ELSE
                                         LET n == DecInt(a.rest) IN IF ~n.ok THEN Rej ELSE Acc(Instr(op, a.v, <<>>, n.v, 0), n.rest)
              [] Shape(op) = "symintmode" -> LET a == DecSym(r) IN IF ~a.ok THEN Rej ELSE
                                             LET n == DecInt(a.rest) IN IF ~n.ok THEN Rej ELSE
                                             LET m == DecMode(n.rest) IN IF ~m.ok THEN Rej ELSE Acc(Instr(op, a.v, <<>>, n.v, m.v), m.rest)
              [] Shape(op) = "intmode" -> LET n == DecInt(r) IN IF ~n.ok THEN Rej ELSE
                                          LET m == DecMode(n.rest) IN IF ~m.ok THEN Rej ELSE Acc(Instr(op, <<>>, <<>>, n.v, m.v), m.rest)
\* a whole program: well-formed iff it is a sequence of complete, valid instructions (the empty string is not a program)
RECURSIVE DecAllR(_, _)
DecAllR(b, acc) == IF b = <<>> THEN Acc(acc, <<>>)
                   ELSE LET d == DecInstr(b) IN IF ~d.ok THEN Rej ELSE DecAllR(d.rest, Append(acc, d.v))
DecAll(b) == IF b = <<>> THEN Rej ELSE DecAllR(b, <<>>)
WellFormedProgram(b) == DecAll(b).ok
\* NoopIsListedAsNothing (named deviation): opcode 0 is in the table; the disassembler accepts it and lists nothing, the VM refuses to run it
Listing(p) == SelectSeq(p, LAMBDA i : i.op # NOOP)

(* ---- the format's own consistency (checked by BytecodeMC) *)
RoundTrip(i, rest) == DecInstr(Enc(i) \o rest) = Acc(i, rest)
WellFormedInstr(i) ==
  /\ i.op \in 0..MaxOp /\ i.m \in {0, 1}
  /\ (Shape(i.op) \in {"sym", "symsym", "symint", "symintmode"} => Len(i.a) \in 1..255)
  /\ (Shape(i.op) = "symsym" => Len(i.b) \in 1..255)
=============================================================================
