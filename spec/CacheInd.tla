------------------------------ MODULE CacheInd ------------------------------
(***************************************************************************)
(* C09 for histories of ANY length: Consistent is an inductive invariant   *)
(* of the cache operations.  Instead of exploring what is reachable from   *)
(* an empty cache in MaxOps steps (CacheMC), TLC starts from EVERY cache    *)
(* value of the bounded universe that satisfies Consistent - reachable or   *)
(* not - and takes ONE step with every operation.  Consistent(New(cap)),    *)
(* together with "Consistent is preserved by every step from every          *)
(* consistent state", gives Consistent after every finite history over the  *)
(* bounded value universe; the step-level clauses of C09 (over-limit        *)
(* refused, refused = no-op, pop releases exactly) are evaluated on every   *)
(* such step as well.                                                       *)
(* Universe: up to MaxFrames scopes, symbols Keys each absent or in exactly *)
(* one scope (OneScope is part of Consistent), values of lengths Lens,      *)
(* limits Limits (also stale limits of symbols no longer cached, as Reset   *)
(* leaves them), capacities Caps, any pending `last` value.                 *)
(***************************************************************************)
EXTENDS Cache, Json, SequencesExt
CONSTANTS Keys, Lens, Limits, Caps, MaxFrames
VARIABLES c, n, last
vars == <<c, n, last>>

NoOp == [op |-> "new", k |-> "", id |-> "", len |-> 0, limit |-> 0]
Op(op, k, id, len, limit) == [op |-> op, k |-> k, id |-> id, len |-> len, limit |-> limit]
Absent == 0 - 1

Mk(nf, pl, ln, sz, cap, lst) ==
  LET fr == [i \in 1..nf |-> [k \in {x \in Keys : pl[x] = i} |-> V("a", ln[k])]]
      c0 == [frames |-> fr, sizes |-> [k \in {x \in Keys : sz[x] # Absent} |-> sz[k]], used |-> 0, cap |-> cap, last |-> V("a", lst)]
  IN [c0 EXCEPT !.used = Total(c0)]

Init == \E nf \in 1..MaxFrames, pl \in [Keys -> 0..MaxFrames], ln \in [Keys -> Lens], sz \in [Keys -> Limits \cup {Absent}], cap \in Caps, lst \in Lens :
          /\ \A k \in Keys : pl[k] <= nf /\ (pl[k] = 0 => ln[k] = 0)          \* canonical form: no two parameter choices for one cache
          /\ c = Mk(nf, pl, ln, sz, cap, lst)
          /\ Consistent(c)
          /\ n = 0
          /\ last = [o |-> NoOp, pre |-> c, ok |-> TRUE]

Do(o) == LET r == Apply(c, o) IN c' = r.c /\ n' = 1 /\ last' = [o |-> o, pre |-> c, ok |-> r.ok]

Next == /\ n = 0
        /\ \/ \E k \in Keys, len \in Lens, lim \in Limits : Do(Op("add", k, "b", len, lim))
           \/ \E k \in Keys, len \in Lens : Do(Op("update", k, "b", len, 0))
           \/ \E k \in Keys : Do(Op("get", k, "", 0, 0))
           \/ Do(Op("push", "", "", 0, 0))
           \/ Do(Op("pop", "", "", 0, 0))
           \/ Do(Op("reset", "", "", 0, 0))
           \/ Do(Op("last", "", "", 0, 0))
Spec == Init /\ [][Next]_vars

\* one line per step of the universe, for execution on a real cache built in the same state
FrJ(f) == SetToSeq({[k |-> k, id |-> f[k].id, len |-> f[k].len] : k \in DOMAIN f})
SnapJ(x) == [frames |-> [i \in 1..Len(x.frames) |-> FrJ(x.frames[i])], sizes |-> SetToSeq({[k |-> k, v |-> x.sizes[k]] : k \in DOMAIN x.sizes}),
             used |-> x.used, cap |-> x.cap, last |-> x.last]
Emit == PrintT(<<"MBT", ToJson([pre |-> SnapJ(c), o |-> last'.o])>>)

\* base case: the empty cache of every capacity is consistent
ASSUME \A cap \in Caps : Consistent(New(cap))

C09_Inductive    == Consistent(c)                 \* in the successors: preserved by the step
C09_OverLimit    == OverLimitRejected(last.pre, last.o, last.ok)
C09_RejectedNoop == RejectedIsNoop(last.pre, last.o, last.ok, c)
C09_PopReleases  == PopReleasesExactly(last.pre, last.o, c)
C09_ReadsNoop    == ReadsAreNoop(last.pre, last.o, c)
=============================================================================
