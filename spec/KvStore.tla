------------------------------- MODULE KvStore -------------------------------
(***************************************************************************)
(* A storage backend handle of go-vise (db/db.go DbBase + mem / fs /       *)
(* postgres): sticky context (data type prefix, session, language), the    *)
(* write-lock mask and its seal, and the keyed map the properties C10 and  *)
(* C11 require the backend to be:                                          *)
(*    content : LogicalKey -> value                                        *)
(*    LogicalKey = <<type, session-if-sessioned, key, lang-if-translatable>>*)
(* plus the storage-key ENCODING (a character sequence) whose injectivity  *)
(* is what isolation between sessions and types rests on.                  *)
(***************************************************************************)
EXTENDS Integers, Sequences, FiniteSets, TLC

TBIN == 1  TMENU == 2  TTEMPLATE == 4  TSTATIC == 8  TSTATE == 16  TUSER == 32
Types == {TBIN, TMENU, TTEMPLATE, TSTATIC, TSTATE, TUSER}
Sessioned(t) == t > TSTATIC
Translatable(t) == t \in {TMENU, TTEMPLATE, TSTATIC}
MaskTypes(m) == {t \in Types : (m \div t) % 2 = 1}     \* the data types named by a lock mask (one bit per type)
SafeLock == {TBIN, TMENU, TTEMPLATE, TSTATIC}              \* read-only for the VM: locked by default

\* h = [pfx, sid, lang, lock (set of types), seal]
\* clang: language carried by the caller's context ("Language" value), used when the handle has no language of its own
Handle0 == [pfx |-> 0, sid |-> "", lang |-> "", clang |-> "", lock |-> SafeLock, seal |-> FALSE]
EffLang(h) == IF h.lang # "" THEN h.lang ELSE h.clang
LK(t, sid, key, lang) == <<t, IF Sessioned(t) THEN sid ELSE "", key, IF Translatable(t) THEN lang ELSE "">>
Cur(h, key, lang) == LK(h.pfx, h.sid, key, lang)

\* g = [h, m]: handle and content (function LogicalKey -> value id, "" = absent is not used: domain membership)
Store0 == [h |-> Handle0, m |-> [k \in {} |-> ""]]
PutM(m, k, v) == [x \in DOMAIN m \cup {k} |-> IF x = k THEN v ELSE m[x]]

\* op = [op, t, s, k, v, b]; result = [g, res, val]
Res(g, res, val) == [g |-> g, res |-> res, val |-> val]
Apply(g, o) ==
  LET h == g.h IN
  CASE o.op = "setprefix"  -> Res([g EXCEPT !.h.pfx = o.t], "ok", "")
    [] o.op = "setsession" -> Res([g EXCEPT !.h.sid = o.s], "ok", "")
    [] o.op = "setlang"    -> Res([g EXCEPT !.h.lang = o.s], "ok", "")
    [] o.op = "setctxlang" -> Res([g EXCEPT !.h.clang = o.s], "ok", "")
    [] o.op = "setlock"    -> IF h.seal THEN Res(g, "err", "")                       \* sealing cannot be undone
                              ELSE IF o.t = 0 THEN Res([g EXCEPT !.h.lock = @ \cup SafeLock, !.h.seal = TRUE], "ok", "")
                              ELSE Res([g EXCEPT !.h.lock = IF o.b THEN @ \cup MaskTypes(o.t) ELSE @ \ MaskTypes(o.t)], "ok", "")  \* o.t is a bit mask
    [] o.op = "put" -> IF h.pfx = 0 THEN Res(g, "err", "")
                       ELSE IF h.pfx \in h.lock THEN Res(g, "err", "")               \* refused while locked, nothing changes
                       ELSE Res([g EXCEPT !.m = PutM(@, Cur(h, o.k, EffLang(h)), o.v)], "ok", "")
    [] o.op = "get" -> IF h.pfx = 0 THEN Res(g, "err", "")
                       ELSE LET tr == Cur(h, o.k, EffLang(h))   df == Cur(h, o.k, "") IN
                            IF tr \in DOMAIN g.m THEN Res(g, "ok", g.m[tr])          \* translation first
                            ELSE IF df \in DOMAIN g.m THEN Res(g, "ok", g.m[df])     \* then the default-language entry
                            ELSE Res(g, "notfound", "")
    [] OTHER -> Res(g, "ok", "")

(* ---- the storage-key encoding as character sequences (t: type, s / k: Seq of 1-char strings, l: language) *)
TypeChar(t) == CASE t = TBIN -> "1" [] t = TMENU -> "2" [] t = TTEMPLATE -> "4" [] t = TSTATIC -> "8" [] t = TSTATE -> "@" [] t = TUSER -> "P"
Chars(str) == str          \* keys are handed over as sequences of one-character strings
SK(t, s, k) == <<TypeChar(t)>> \o (IF Sessioned(t) /\ s # <<>> THEN s \o <<".">> ELSE <<>>) \o k
=============================================================================
