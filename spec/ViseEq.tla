------------------------------- MODULE ViseEq -------------------------------
(***************************************************************************)
(* C07 on the design: the product of a long-lived engine (L) and a         *)
(* persisted one (P: load -> request -> flush -> save) fed the same        *)
(* inputs and the same external results.  The client-visible observation   *)
(* of every request -- the page descriptor of the Flush, continue/stop,    *)
(* error -- must be equal up to the end of the session.                    *)
(***************************************************************************)
EXTENDS Engine, Json, IOUtils
CONSTANTS MaxReq, Cap, NFlags

ProgFile == JsonDeserialize(IOEnv.VERIF_PROG)
MCProg == ProgFile.nodes
MCSyms == ProgFile.syms
Inputs == ToSetSeq(ProgFile.inputs) \cup {"BAD", "LONG"}
InClass(i) == IF i = "BAD" THEN "bad" ELSE IF i = "LONG" THEN "long" ELSE "ok"
SymNames == DOMAIN MCSyms
\* every external function returns its k-th alternative during the request (k = 1, 2, 3; clipped)
Picks == {[s \in SymNames |-> IF k <= Len(MCSyms[s]) THEN k ELSE 1] : k \in 1..3}

VARIABLES L, P, nreq, alive, last
vars == <<L, P, nreq, alive, last>>

Init == /\ L = NewEngine(NewSession(Cap, NFlags)) /\ P = NewEngine(NewSession(Cap, NFlags))
        /\ nreq = 0 /\ alive = TRUE
        /\ last = [l |-> <<>>, p |-> <<>>, saved |-> Persisted(NewSession(Cap, NFlags)), live |-> Persisted(NewSession(Cap, NFlags))]

Serve(e, in, pk) ==
  LET q == ExecReq([e EXCEPT !.s.pick = pk], in, InClass(in))
      f == FlushReq(q.e, TRUE)
  IN [e |-> [f.e EXCEPT !.s.pick = <<>>, !.s.calls = <<>>, !.s.looks = <<>>],
      obs |-> <<q.cont, q.err, f.err, f.page>>, ended |-> ~q.cont \/ (q.err /\ InClass(in) = "ok")]

Request(in, pk) ==
  /\ alive /\ nreq < MaxReq
  /\ LET l == Serve(L, in, pk)
         p == Serve(LoadEngine(P.s), in, pk) IN
     /\ L' = l.e /\ P' = p.e
     /\ nreq' = nreq + 1
     /\ alive' = ~(l.ended \/ p.ended)
     /\ last' = [l |-> l.obs, p |-> p.obs, saved |-> Persisted(LoadEngine(p.e.s).s), live |-> Persisted(p.e.s)]

Next == \E in \in Inputs, pk \in Picks : Request(in, pk)
Spec == Init /\ [][Next]_vars
View == vars

C07_ModeEquiv == last.l = last.p
C07_SnapshotRoundTrip == last.saved = last.live
=============================================================================
