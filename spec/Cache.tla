------------------------------- MODULE Cache -------------------------------
(***************************************************************************)
(* The scoped symbol cache of go-vise (cache/cache.go) as pure functions   *)
(* over a record, in the semantics that properties C09 and C05 require.    *)
(*                                                                         *)
(* c = [frames : Seq(key -> value), sizes : key -> limit, used, cap, last] *)
(* A value is the token [id, len]: byte strings are abstracted to an       *)
(* identity and a length (TLC has no string operations; the properties     *)
(* talk about lengths and about which value is stored, nothing else).      *)
(* The empty string is the single token NoVal.                             *)
(*                                                                         *)
(* Every operation returns [c, ok, val].                                   *)
(***************************************************************************)
EXTENDS Integers, Sequences, FiniteSets, TLC

NoVal == [id |-> "", len |-> 0]
V(id, len) == IF len = 0 THEN NoVal ELSE [id |-> id, len |-> len]
EmptyF == [k \in {} |-> NoVal]
EmptyS == [k \in {} |-> 0]

New(cap) == [frames |-> <<EmptyF>>, sizes |-> EmptyS, used |-> 0, cap |-> cap, last |-> NoVal]

\* lowest frame (1-based) defining k, 0 if none -- cache.frameOf
FrameOf(c, k) == LET S == {i \in 1..Len(c.frames) : k \in DOMAIN c.frames[i]}
                 IN IF S = {} THEN 0 ELSE CHOOSE i \in S : \A j \in S : i <= j
Visible(c, k) == FrameOf(c, k) # 0

SumF(f) == LET RECURSIVE S(_)
               S(D) == IF D = {} THEN 0 ELSE LET k == CHOOSE x \in D : TRUE IN f[k].len + S(D \ {k})
           IN S(DOMAIN f)
Total(c) == LET RECURSIVE T(_)
                T(i) == IF i = 0 THEN 0 ELSE SumF(c.frames[i]) + T(i - 1)
            IN T(Len(c.frames))
PutF(f, k, v) == [x \in DOMAIN f \cup {k} |-> IF x = k THEN v ELSE f[x]]
DelF(f, D) == [x \in DOMAIN f \ D |-> f[x]]

Res(c, ok, val) == [c |-> c, ok |-> ok, val |-> val]
CapOK(c, newUsed) == c.cap = 0 \/ newUsed <= c.cap
LimitOf(c, k) == IF k \in DOMAIN c.sizes THEN c.sizes[k] ELSE 0

(* Add: refused if the value exceeds the declared limit, if the symbol is   *)
(* already defined in any scope, or if the capacity would be exceeded.      *)
Add(c, k, v, limit) ==
  IF limit > 0 /\ v.len > limit THEN Res(c, FALSE, NoVal)
  ELSE IF Visible(c, k) THEN Res(c, FALSE, NoVal)
  ELSE IF ~CapOK(c, c.used + v.len) THEN Res(c, FALSE, NoVal)
  ELSE Res([c EXCEPT !.frames[Len(c.frames)] = PutF(@, k, v), !.used = @ + v.len,
                     !.sizes = PutF(@, k, limit), !.last = v], TRUE, NoVal)

(* Update: replaces the value in the scope where the symbol lives, under    *)
(* the limit declared when it was added; also with the empty value.         *)
Update(c, k, v) ==
  LET limit == LimitOf(c, k)
      fr == FrameOf(c, k) IN
  IF limit > 0 /\ v.len > limit THEN Res(c, FALSE, NoVal)
  ELSE IF fr = 0 THEN Res(c, FALSE, NoVal)
  ELSE LET old == c.frames[fr][k] IN
       IF ~CapOK(c, c.used - old.len + v.len) THEN Res(c, FALSE, NoVal)
       ELSE Res([c EXCEPT !.frames[fr] = PutF(@, k, v), !.used = @ - old.len + v.len], TRUE, NoVal)

Get(c, k) == LET fr == FrameOf(c, k) IN
             IF fr = 0 THEN Res(c, FALSE, NoVal) ELSE Res(c, TRUE, c.frames[fr][k])

Push(c) == Res([c EXCEPT !.frames = Append(@, EmptyF)], TRUE, NoVal)

(* Pop: leaving a scope releases exactly the symbols it held; popping the   *)
(* only scope empties it (a fresh one is pushed).                           *)
Pop(c) ==
  LET n == Len(c.frames)
      f == c.frames[n]
      c1 == [c EXCEPT !.frames = SubSeq(@, 1, n - 1), !.used = @ - SumF(f), !.sizes = DelF(@, DOMAIN f)]
  IN Res(IF n = 1 THEN [c1 EXCEPT !.frames = <<EmptyF>>] ELSE c1, TRUE, NoVal)

(* Reset: drops every scope but the first.                                  *)
(* Named deviation (follows the code): the limits of the dropped symbols    *)
(* stay in `sizes` (ResetKeepsSizes); nothing observable depends on them.   *)
Reset(c) == Res([c EXCEPT !.frames = <<c.frames[1]>>, !.used = SumF(c.frames[1])], TRUE, NoVal)

\* Last: read-and-clear of the most recently added value
Last(c) == Res([c EXCEPT !.last = NoVal], TRUE, c.last)

Apply(c, o) ==
  CASE o.op = "add"    -> Add(c, o.k, V(o.id, o.len), o.limit)
    [] o.op = "update" -> Update(c, o.k, V(o.id, o.len))
    [] o.op = "get"    -> Get(c, o.k)
    [] o.op = "push"   -> Push(c)
    [] o.op = "pop"    -> Pop(c)
    [] o.op = "reset"  -> Reset(c)
    [] o.op = "last"   -> Last(c)

(***************************************************************************)
(* Property C09 as predicates                                              *)
(***************************************************************************)
UsedIsSum(c)  == c.used = Total(c)
WithinCap(c)  == c.cap = 0 \/ c.used <= c.cap
OneScope(c)   == \A i, j \in 1..Len(c.frames) : i # j => DOMAIN c.frames[i] \cap DOMAIN c.frames[j] = {}
LimitsHold(c) == \A i \in 1..Len(c.frames) : \A k \in DOMAIN c.frames[i] :
                   k \in DOMAIN c.sizes /\ (c.sizes[k] = 0 \/ c.frames[i][k].len <= c.sizes[k])
Consistent(c) == UsedIsSum(c) /\ WithinCap(c) /\ OneScope(c) /\ LimitsHold(c)

\* what a client of the cache can observe: contents, accounting (limits only of live symbols)
LiveSizes(c) == [k \in {x \in DOMAIN c.sizes : Visible(c, x)} |-> c.sizes[k]]
Obs(c) == [frames |-> c.frames, used |-> c.used, cap |-> c.cap, sizes |-> LiveSizes(c)]

\* step-level statements of C09 over (pre, operation, ok, post)
OverLimitRejected(pre, o, ok) ==
  /\ (o.op = "add" /\ o.limit > 0 /\ o.len > o.limit) => ~ok
  /\ (o.op = "update" /\ LimitOf(pre, o.k) > 0 /\ o.len > LimitOf(pre, o.k)) => ~ok
RejectedIsNoop(pre, o, ok, post) == (~ok /\ o.op \in {"add", "update", "get"}) => Obs(post) = Obs(pre)
PopReleasesExactly(pre, o, post) ==
  o.op = "pop" => LET n == Len(pre.frames) IN
                  /\ post.used = pre.used - SumF(pre.frames[n])
                  /\ post.frames = IF n = 1 THEN <<EmptyF>> ELSE SubSeq(pre.frames, 1, n - 1)
ReadsAreNoop(pre, o, post) == o.op \in {"get"} => Obs(post) = Obs(pre)
=============================================================================
