------------------------------ MODULE RenderMC ------------------------------
(* Enumerates every configuration in the bound (built up row by row so that  *)
(* TLC's workers share the work), evaluates the contract on the algorithm    *)
(* model, and emits every configuration for replay on the real renderer.     *)
EXTENDS Render, Json
CONSTANTS Sizes, RowLens, MaxRows, MaxIdx, Tpls, Menus, ErrLens, ValLens, Msinks
VARIABLES cfg, done

\* tpl is the total of static bytes: template text (tplstatic) + a mapped non-sink value (vallen) + the error prefix and its
\* newline (errlen + 1); the components are kept so that the driver can build exactly that page
Init == /\ cfg = [size |-> 0, tpl |-> 4, menu |-> 0, nextLen |-> 0, prevLen |-> 0, rows |-> <<>>, msink |-> FALSE,
                  tplstatic |-> 4, errlen |-> 0, vallen |-> 0]
        /\ done = FALSE
AddRow == /\ ~done /\ Len(cfg.rows) < MaxRows
          /\ \E r \in RowLens : cfg' = [cfg EXCEPT !.rows = Append(cfg.rows, r)]
          /\ UNCHANGED done
Fix == /\ ~done /\ Len(cfg.rows) > 0
       /\ \E s \in Sizes, t \in Tpls, m \in Menus, b \in BOOLEAN, e \in ErrLens, v \in ValLens, ms \in Msinks :
            \* menu-as-sink (MSINK): the rows are menu lines "<sel>:<title>" (at least 3 bytes), no sink symbol, no mapped value
            /\ (ms => (v = 0 /\ m = 0 /\ \A i \in DOMAIN cfg.rows : cfg.rows[i] >= 3))
            /\ cfg' = [cfg EXCEPT !.size = s, !.msink = ms, !.tplstatic = t, !.errlen = e, !.vallen = v,
                               !.tpl = t + v + (IF e > 0 THEN e + 1 ELSE 0),
                               !.menu = m, !.nextLen = IF b THEN 7 ELSE 0, !.prevLen = IF b THEN 11 ELSE 0]
       /\ done' = TRUE
Next == AddRow \/ Fix
Spec == Init /\ [][Next]_<<cfg, done>>

Pages == [i \in 0..MaxIdx |-> Render(cfg, i)]
AllRows == [i \in 1..Len(cfg.rows) |-> i]

C01_Fits == done => Fits(cfg.size, Pages)
C02_NoPanic == done => NoPanic(Pages)
C02_PastEndIsError == done => PastEndIsError(Pages)
\* the remaining clauses of C02 do not hold on the algorithm as it is (known findings); they are evaluated so that
\* TLC can count and emit the violating configurations
C02_OfferedRenders == done => OfferedRenders(Pages)
C02_NavOffered == done => NavOffered(Pages, cfg.nextLen > 0, cfg.prevLen > 0)
C02_Partition == done => Partition(Pages, AllRows)

Emit == done' => PrintT(<<"MBT", ToJson([cfg |-> cfg', maxidx |-> MaxIdx])>>)
=============================================================================
