-------------------------------- MODULE PgTx --------------------------------
(***************************************************************************)
(* The Postgres backend handle (db/postgres/pg.go: tx, multi; Start, Stop, *)
(* Abort, Put, Get, each split into its primitive driver calls) over a     *)
(* transactional server (committed map, private write sets, the aborted-   *)
(* transaction rule: after a failed statement every further statement of   *)
(* the transaction fails and COMMIT rolls back) with a fault plan: one     *)
(* BOOLEAN per primitive call of the operation, consumed in order.         *)
(*                                                                         *)
(* Named deviation kept from the code: PgStopKeepsMulti -- Stop and Abort  *)
(* leave `multi` set (TestPostgresTxStartStop encodes it).  Its effect on  *)
(* C13 is the known finding KF-pg-sticky-multi; the ghost `kf` marks the   *)
(* histories it can affect (an explicit transaction has ended on the       *)
(* handle).                                                                *)
(***************************************************************************)
EXTENDS Integers, Sequences, FiniteSets, TLC

CONSTANTS Keys, Vals
None == 0
EmptyWS == [k \in Keys |-> 0]

\* s = [tx, multi, committed, txs : Seq([ws, aborted, done]), log, fl, used]
Handle0 == [tx |-> None, multi |-> FALSE, committed |-> [k \in Keys |-> 0], txs |-> <<>>, log |-> <<>>, fl |-> <<>>, used |-> 0, panic |-> FALSE, soft |-> FALSE]
\* `soft`: the statements that fail in this operation fail on the client side (argument encoding, a context that has already
\* expired): the server never saw them and the transaction is NOT poisoned - a COMMIT issued afterwards would succeed and make
\* the earlier writes of the transaction durable.  Put and Get must end the transaction with ROLLBACK either way.
\* ---- a small sequential "program counter free" encoding: each public op is evaluated as a pure function
\* over a server/handle record with an explicit list of fault decisions (one BOOLEAN per primitive call, consumed in order)

Fail(s) == s.used < Len(s.fl) /\ s.fl[s.used + 1]
Tick(s) == [s EXCEPT !.used = @ + 1]

Begin(s) ==  \* returns [s, err]
  IF Fail(s) THEN [s |-> [Tick(s) EXCEPT !.log = Append(@, "FAIL:begin")], err |-> TRUE]
  ELSE LET id == Len(s.txs) + 1 IN
       [s |-> [Tick(s) EXCEPT !.txs = Append(@, [ws |-> EmptyWS, aborted |-> FALSE, done |-> FALSE]),
                              !.tx = id, !.log = Append(@, "begin")], err |-> FALSE]
Start_(s) == IF s.tx # None THEN [s |-> s, err |-> FALSE] ELSE Begin(s)

Commit(s) == \* on s.tx; returns [s, err]; handle tx cleared by callers
  LET t == s.txs[s.tx] IN
  IF t.done THEN [s |-> [s EXCEPT !.log = Append(@, "REFUSED:commit")], err |-> TRUE]       \* (ending a transaction that is over: logged)
  ELSE IF Fail(s) THEN [s |-> [Tick(s) EXCEPT !.txs[s.tx].done = TRUE, !.log = Append(@, "FAIL:commit")], err |-> TRUE]   \* a failed COMMIT ends the transaction without effect
  ELSE IF t.aborted THEN [s |-> [Tick(s) EXCEPT !.txs[s.tx].done = TRUE, !.log = Append(@, "commit->rollback")], err |-> TRUE]
  ELSE [s |-> [Tick(s) EXCEPT !.txs[s.tx].done = TRUE, !.log = Append(@, "commit"),
                              !.committed = [k \in Keys |-> IF t.ws[k] # 0 THEN t.ws[k] ELSE @[k]]], err |-> FALSE]
\* ROLLBACK is a primitive call too: it may fail (connection trouble) - the transaction is over on the server all the same,
\* and the handle must let go of it (Abort has no result to report the failure with)
Rollback(s) == LET t == s.txs[s.tx] IN
  IF t.done THEN [s EXCEPT !.log = Append(@, "REFUSED:rollback")]
  ELSE IF Fail(s) THEN [Tick(s) EXCEPT !.txs[s.tx].done = TRUE, !.log = Append(@, "FAIL:rollback")]
  ELSE [Tick(s) EXCEPT !.txs[s.tx].done = TRUE, !.log = Append(@, "rollback")]

\* Abort without a transaction is a no-op (was a nil dereference before the repair)
Abort_(s) == IF s.tx = None THEN s ELSE [Rollback(s) EXCEPT !.tx = None]
StopSingle(s) == IF s.multi THEN [s |-> s, err |-> FALSE]
                 ELSE LET c == Commit(s) IN [s |-> [c.s EXCEPT !.tx = None], err |-> c.err]

R(s, res, val) == [s |-> s, res |-> res, val |-> val]
OpStart(s) == IF s.tx # None THEN R(s, "err", 0)
              ELSE LET b == Begin(s) IN IF b.err THEN R(b.s, "err", 0) ELSE R([b.s EXCEPT !.multi = TRUE], "ok", 0)
OpStop(s) == IF ~s.multi THEN R(s, "err", 0)
             ELSE IF s.tx = None THEN R(s, "err", 0)
             ELSE LET c == Commit(s) IN R([c.s EXCEPT !.tx = None], IF c.err THEN "err" ELSE "ok", 0)
\* Close ends an explicit transaction as Stop does; "no transaction" is not an error for it (single mode still is)
OpClose(s) == IF ~s.multi THEN R(s, "err", 0)
              ELSE IF s.tx = None THEN R(s, "ok", 0)
              ELSE LET c == Commit(s) IN R([c.s EXCEPT !.tx = None], IF c.err THEN "err" ELSE "ok", 0)
OpAbort(s) == R(Abort_(s), "ok", 0)
OpPut(s, k, v) ==
  LET st == Start_(s) IN
  IF st.err THEN R(st.s, "err", 0)
  ELSE LET s1 == st.s  t == s1.txs[s1.tx] IN
       IF t.done \/ t.aborted THEN R(s1, "err", 0)
       \* a failed statement ends the transaction, as Get does (the transaction was left open before the repair)
       ELSE IF Fail(s1) THEN R(Abort_([Tick(s1) EXCEPT !.txs[s1.tx].aborted = ~s1.soft, !.log = Append(@, "FAIL:exec")]), "err", 0)
       ELSE LET s2 == [Tick(s1) EXCEPT !.txs[s1.tx].ws[k] = v]
                c == StopSingle(s2) IN R(c.s, IF c.err THEN "err" ELSE "ok", 0)
OpGet(s, k) ==
  LET st == Start_(s) IN
  IF st.err THEN R(st.s, "err", 0)
  ELSE LET s1 == st.s  t == s1.txs[s1.tx] IN
       IF t.done \/ t.aborted THEN R(Abort_(s1), "err", 0)
       ELSE IF Fail(s1) THEN R(Abort_([Tick(s1) EXCEPT !.txs[s1.tx].aborted = ~s1.soft, !.log = Append(@, "FAIL:query")]), "err", 0)
       ELSE LET s2 == Tick(s1)
                v == IF t.ws[k] # 0 THEN t.ws[k] ELSE s2.committed[k] IN
            IF v = 0 THEN R(Abort_(s2), "notfound", 0)
            ELSE LET c == StopSingle(s2) IN R(c.s, IF c.err THEN "err" ELSE "ok", v)


Apply(s, op) == LET s0 == [s EXCEPT !.fl = op.fl, !.used = 0, !.log = <<>>, !.soft = op.soft] IN
                CASE op.op = "start" -> OpStart(s0)
                  [] op.op = "stop"  -> OpStop(s0)
                  [] op.op = "close" -> OpClose(s0)
                  [] op.op = "abort" -> OpAbort(s0)
                  [] op.op = "put"   -> OpPut(s0, op.k, op.v)
                  [] op.op = "get"   -> OpGet(s0, op.k)

(***************************************************************************)
(* The oracle: what a keyed map with explicit transactions must contain.   *)
(* g = [exp (durable), pend (writes of the explicit tx), inx, tainted      *)
(*      (a statement of the explicit tx failed or a key was not found),    *)
(*      kf (an explicit transaction has ended on this handle),             *)
(*      ever (per key: every value that has ever been the acknowledged     *)
(*      durable one, 0 = absent)]                                          *)
(***************************************************************************)
G0 == [exp |-> [k \in Keys |-> 0], pend |-> [k \in Keys |-> 0], inx |-> FALSE, tainted |-> FALSE, kf |-> FALSE, ever |-> [k \in Keys |-> {0}]]
Want(g, k) == IF g.inx /\ g.pend[k] # 0 THEN g.pend[k] ELSE g.exp[k]
\* op = [op, k, v], res in {"ok","err","notfound","panic"}
GhostCore(g, op, res) ==
  CASE op.op = "start" -> IF res = "ok" THEN [g EXCEPT !.inx = TRUE, !.tainted = FALSE, !.pend = [k \in Keys |-> 0]] ELSE g
    [] op.op \in {"stop", "close"} -> IF ~g.inx THEN g
                          ELSE [g EXCEPT !.inx = FALSE, !.kf = TRUE, !.tainted = FALSE, !.pend = [k \in Keys |-> 0],
                                         !.exp = IF res = "ok" /\ ~g.tainted THEN [k \in Keys |-> IF g.pend[k] # 0 THEN g.pend[k] ELSE g.exp[k]] ELSE @]
    [] op.op = "abort" -> IF ~g.inx THEN g ELSE [g EXCEPT !.inx = FALSE, !.kf = TRUE, !.tainted = FALSE, !.pend = [k \in Keys |-> 0]]
    [] op.op = "put"   -> IF g.inx THEN (IF res = "ok" THEN [g EXCEPT !.pend[op.k] = op.v] ELSE [g EXCEPT !.tainted = TRUE])
                          ELSE (IF res = "ok" THEN [g EXCEPT !.exp[op.k] = op.v] ELSE g)
    [] op.op = "get"   -> IF g.inx /\ res # "ok" THEN [g EXCEPT !.tainted = TRUE] ELSE g
    [] OTHER -> g

\* (a Stop that succeeds acknowledges the successful puts of the explicit transaction also when the oracle has lost track of it -
\* after a failed statement the handle continues in a new transaction: those values may, not must, be durable)
GhostStep(g, op, res) == LET g2 == GhostCore(g, op, res) IN
  [g2 EXCEPT !.ever = [k \in Keys |-> g.ever[k] \cup {g2.exp[k]}
                                        \cup (IF op.op \in {"stop", "close"} /\ res = "ok" /\ g.inx /\ g.pend[k] # 0 THEN {g.pend[k]} ELSE {})]]

HasFault(log) == \E i \in DOMAIN log : log[i] \in {"FAIL:begin", "FAIL:exec", "FAIL:query", "FAIL:scan", "FAIL:commit"}
Begins(log) == {i \in DOMAIN log : log[i] = "begin"}

(***************************************************************************)
(* C13 as predicates over one operation: ghost before it, the operation,   *)
(* its result and value, the server log of the operation, the number of    *)
(* transactions open on the server afterwards.                             *)
(***************************************************************************)
NoPanicP(res) == res # "panic"
ErrorReportedP(log, res) == HasFault(log) => res = "err"
\* once the fault is gone, operations outside a (tainted) explicit transaction work normally and
\* return exactly the acknowledged writes
NoWedgeP(g, op, res, val, log) ==
  (~HasFault(log) /\ op.op \in {"put", "get"} /\ ~(g.inx /\ g.tainted)) =>
     CASE op.op = "put" -> res = "ok"
       [] op.op = "get" -> IF Want(g, op.k) = 0 THEN res = "notfound" ELSE res = "ok" /\ val = Want(g, op.k)
\* every transaction begun is ended exactly once by the time the handle is idle
EndedOnceP(gAfter, open) == ~gAfter.inx => open = 0
\* nothing becomes durable that was never acknowledged: what a fresh handle would read for a key is a value that has at some
\* point been the acknowledged one (the writes of an explicit transaction count from its successful Stop only)
NoUnackedDurableP(gAfter, durable) == \A k \in Keys : durable[k] \in gAfter.ever[k]
\* a Stop that reports success for an explicit transaction with acknowledged writes has sent a COMMIT: success without one
\* (the library rolled the transaction back itself after a failed statement, nothing is open) acknowledges writes that are gone
StopAcksByCommitP(g, op, res, log) ==
  (op.op = "stop" /\ res = "ok" /\ g.inx /\ \E k \in Keys : g.pend[k] # 0) => \E i \in DOMAIN log : log[i] = "commit"
NotEndedTwiceP(log) == \A i \in DOMAIN log : log[i] \notin {"REFUSED:commit", "REFUSED:rollback", "REFUSED:exec", "REFUSED:query"}
\* explicit transaction: Start / Stop / Abort themselves behave (fault-free)
MultiP(g, op, res, log) ==
  /\ (op.op = "start" /\ ~HasFault(log) /\ ~g.inx) => res = "ok"
  /\ (op.op \in {"stop", "close"} /\ ~HasFault(log) /\ g.inx /\ ~g.tainted) => res = "ok"
=============================================================================
