------------------------------- MODULE ViseInd -------------------------------
(***************************************************************************)
(* C08 / C05 / C06 for histories of ANY length, at the level of the        *)
(* specification: the session invariants are INDUCTIVE over the run-loop   *)
(* iteration `Iter` of Vise.tla.  TLC starts from every session state of a *)
(* bounded universe that satisfies the invariant - reachable or not -:     *)
(* any path of the program's nodes up to MaxDepth, one cache scope per     *)
(* level with any placement of the symbols (values of any alternative      *)
(* length, declared limits), any subset of the flags, any input of the     *)
(* alphabet, and as pending code any suffix of any node's code (or the     *)
(* catch / entry move); and takes ONE iteration with every alternative     *)
(* result of the external function it may call.  ViseMC explores what is   *)
(* reachable within MaxReq requests; this closes the argument for longer   *)
(* histories (every real iteration is separately checked to BE an `Iter`   *)
(* step by ViseTrace).  Named carve-out: a CROAK that fires drops the      *)
(* cache scopes but keeps the path (known finding KF-croak-keeps-path);    *)
(* such a step is exempt from the one-scope-per-level clause.              *)
(***************************************************************************)
EXTENDS Vise, Json, IOUtils
CONSTANTS MaxDepth, NFlags, FlagUniverse

ProgFile == JsonDeserialize(IOEnv.VERIF_PROG)
MCProg == ProgFile.nodes
MCSyms == ProgFile.syms
Nodes == DOMAIN MCProg
SymNames == DOMAIN MCSyms \ {"_first"}
Inputs == ToSetSeq(ProgFile.inputs)
Suffixes == UNION {{SubSeq(MCProg[nd], i, Len(MCProg[nd])) : i \in 1..(Len(MCProg[nd]) + 1)} : nd \in Nodes} \cup {CatchCode, RootCode}
AllInstrs == UNION {ToSetSeq(MCProg[nd]) : nd \in Nodes}
\* what a symbol may hold: the value of any alternative result, under any limit a LOAD of the program declares for it
ValsOf(k) == {V(MCSyms[k][i].id, MCSyms[k][i].len) : i \in DOMAIN MCSyms[k]}
LimitsOf(k) == {x.n % 65536 : x \in {y \in AllInstrs : y.op = "LOAD" /\ y.a = k}} \cup {0}
Paths == UNION {[1..d -> Nodes] : d \in 0..MaxDepth}

VARIABLES s, step, last
vars == <<s, step, last>>

Mk(path, pl, vl, lm, flags, code, inp) ==
  LET fr == [i \in 1..(Len(path) + 1) |-> [k \in {x \in SymNames : pl[x] = i} |-> vl[k]]]
      c0 == [frames |-> fr, sizes |-> [k \in {x \in SymNames : pl[x] # 0} |-> lm[k]], used |-> 0, cap |-> ProgFile.cachesize, last |-> NoVal]
      c1 == [c0 EXCEPT !.used = Total(c0)]
  IN [NewSession(ProgFile.cachesize, NFlags) EXCEPT !.path = path, !.c = c1, !.flags = flags, !.code = code, !.input = inp]

\* the invariant: one scope per level, accounting, limits, path over existing nodes starting at the entry node
Inv(x) == /\ Levels(x) /\ Consistent(x.c)
          /\ \A i \in 1..Len(x.path) : x.path[i] \in Nodes \cup {"_catch"}
          /\ x.idx >= 0

Init == \E path \in Paths, pl \in [SymNames -> 0..(MaxDepth + 1)], flags \in SUBSET FlagUniverse, code \in Suffixes,
           inp \in {NoInput} \cup {In(v) : v \in Inputs} :
          \E vl \in [SymNames -> UNION {ValsOf(k) : k \in SymNames}], lm \in [SymNames -> UNION {LimitsOf(k) : k \in SymNames}] :
          /\ \A k \in SymNames : /\ pl[k] <= Len(path) + 1
                                 /\ vl[k] \in ValsOf(k) /\ lm[k] \in LimitsOf(k)
                                 /\ (pl[k] = 0 => vl[k] = CHOOSE v \in ValsOf(k) : TRUE) /\ (pl[k] = 0 => lm[k] = 0)
                                 /\ (lm[k] = 0 \/ vl[k].len <= lm[k])
          /\ s = Mk(path, pl, vl, lm, flags, code, inp)
          /\ Inv(s)
          /\ step = 0 /\ last = [pre |-> s, croak |-> FALSE, panic |-> FALSE, err |-> FALSE]

NextCall == IF TERMINATE \in s.flags \/ s.code = <<>> THEN ""
            ELSE LET ins == Head(s.code) IN
                 IF ins.a \in SymNames /\ (ins.op = "RELOAD" \/ (ins.op = "LOAD" /\ ~Visible(s.c, ins.a))) THEN ins.a ELSE ""
Next == /\ step = 0
        /\ \E i \in (IF NextCall = "" THEN {1} ELSE 1..Len(MCSyms[NextCall])) :
             LET s0 == IF NextCall = "" THEN s ELSE [s EXCEPT !.pick = [k \in {NextCall} |-> i]]
                 r == Iter(s0)
                 ins == IF s.code = <<>> THEN I("NONE", "", "", 0, 0, "") ELSE Head(s.code) IN
             /\ s' = [r.s EXCEPT !.pick = <<>>, !.looks = <<>>, !.calls = <<>>]
             /\ step' = 1
             /\ last' = [pre |-> s, croak |-> (ins.op = "CROAK" /\ TERMINATE \notin s.flags /\ Len(r.s.c.frames) < Len(s.c.frames)),
                         panic |-> r.panic, err |-> r.err]
Spec == Init /\ [][Next]_vars

\* ---- preserved by every iteration from every state that satisfies it
C08_LevelsInductive == step = 1 /\ ~last.croak /\ ~last.panic => Levels(s)
C08_ConsistentInductive == step = 1 => Consistent(s.c)
C08_PathInductive == step = 1 /\ ~last.panic => \A i \in 1..Len(s.path) : s.path[i] \in Nodes \cup {"_catch"}
C08_NoPanicStep == step = 1 => ~last.panic
\* C06: an iteration changes reserved flags only the way the run loop itself does - never from FlagSet / FlagReset of
\* external code - and nothing at all while TERMINATE is set
C06_BlockedStep == step = 1 /\ TERMINATE \in last.pre.flags => NavProj(s) = NavProj(last.pre) /\ CacheProj(s) = CacheProj(last.pre) /\ s.flags = last.pre.flags
\* C05: mapped values are visible symbols after every iteration
C05_MappedVisibleStep == step = 1 /\ ~last.croak => \A k \in DOMAIN s.mapped : Visible(s.c, k)
=============================================================================
