------------------------------ MODULE CacheMC ------------------------------
(* Exhaustive exploration of the cache design: every operation sequence over *)
(* boundary lengths / limits / capacities up to MaxOps.  `last` (in the VIEW) *)
(* is the observation the invariants read; `hist` (outside the VIEW) only    *)
(* feeds behaviour emission for replay into cache.Cache.                     *)
EXTENDS Cache, Json
CONSTANTS Keys, Ids, Lens, Limits, Caps, MaxOps, MaxFrames
VARIABLES c, n, last, hist
vars == <<c, n, last, hist>>

NoOp == [op |-> "new", k |-> "", id |-> "", len |-> 0, limit |-> 0]
Op(op, k, id, len, limit) == [op |-> op, k |-> k, id |-> id, len |-> len, limit |-> limit]

Init == \E cap \in Caps :
          /\ c = New(cap) /\ n = 0
          /\ last = [o |-> NoOp, pre |-> New(cap), ok |-> TRUE]
          /\ hist = <<[o |-> [NoOp EXCEPT !.limit = cap], ok |-> TRUE, used |-> 0, levels |-> 1]>>

Do(o) == LET r == Apply(c, o) IN
         /\ c' = r.c /\ n' = n + 1
         /\ last' = [o |-> o, pre |-> c, ok |-> r.ok]
         /\ hist' = Append(hist, [o |-> o, ok |-> r.ok, used |-> r.c.used, levels |-> Len(r.c.frames)])

AddOp    == \E k \in Keys, id \in Ids, len \in Lens, lim \in Limits : Do(Op("add", k, id, len, lim))
UpdateOp == \E k \in Keys, id \in Ids, len \in Lens : Do(Op("update", k, id, len, 0))
GetOp    == \E k \in Keys : Do(Op("get", k, "", 0, 0))
PushOp   == Len(c.frames) < MaxFrames /\ Do(Op("push", "", "", 0, 0))
PopOp    == Do(Op("pop", "", "", 0, 0))
ResetOp  == Do(Op("reset", "", "", 0, 0))
LastOp   == Do(Op("last", "", "", 0, 0))

Next == n < MaxOps /\ (AddOp \/ UpdateOp \/ GetOp \/ PushOp \/ PopOp \/ ResetOp \/ LastOp)
Spec == Init /\ [][Next]_vars

\* ---- C09 on the design
C09_Consistent   == Consistent(c)
C09_OverLimit    == OverLimitRejected(last.pre, last.o, last.ok)
C09_RejectedNoop == RejectedIsNoop(last.pre, last.o, last.ok, c)
C09_PopReleases  == PopReleasesExactly(last.pre, last.o, c)
C09_ReadsNoop    == ReadsAreNoop(last.pre, last.o, c)

View == <<c, n, last>>
ViewNoN == <<c, last>>
Emit == PrintT(<<"MBT", ToJson(hist')>>)
=============================================================================
