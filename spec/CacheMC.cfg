SPECIFICATION Spec
CONSTANTS
  Keys = {"a", "b"}
  Ids = {"x", "y"}
  Lens = {0, 1, 5, 65535, 65536, 70000}
  Limits = {0, 1, 5, 65535}
  Caps = {0, 6, 65536, 140000}
  MaxOps = 4
  MaxFrames = 3
INVARIANTS C09_Consistent C09_OverLimit C09_RejectedNoop C09_PopReleases C09_ReadsNoop
VIEW View
CHECK_DEADLOCK FALSE
