------------------------------- MODULE FsSave -------------------------------
(***************************************************************************)
(* Crash-atomicity of saving a session to the filesystem store (C12).      *)
(* The sequence of primitive file operations of ONE save is not assumed:   *)
(* it is recorded from the real code with strace and read from the file    *)
(* named by VERIF_OPS.  The model executes it over a directory of files    *)
(* with abstract contents and lets the process die before any operation    *)
(* (Crash) or in the middle of a write (TornWrite, model only: a process   *)
(* death cannot tear a single write(2), a power loss could).               *)
(*   files : name -> "ABSENT" | "OLD" | "EMPTY" | "PART" | "NEW"           *)
(*   "S" is the record of the session being saved, "N" a neighbour's.      *)
(* op = [op, f, g, n]: open-trunc f | create f | write f n | rename f g |  *)
(*                     unlink f | other (close, fsync, read-only open)     *)
(***************************************************************************)
EXTENDS Integers, Sequences, FiniteSets, TLC, Json, IOUtils
Rec == JsonDeserialize(IOEnv.VERIF_OPS)
Ops == Rec.ops
Total == Rec.total           \* bytes of the complete new record
Names == {"S", "N"} \cup {Ops[i].f : i \in DOMAIN Ops} \cup {Ops[i].g : i \in DOMAIN Ops}

VARIABLES files, written, pc, crashed, torn
vars == <<files, written, pc, crashed, torn>>
Init == /\ files = [x \in Names |-> IF x \in {"S", "N"} THEN "OLD" ELSE "ABSENT"]
        /\ written = [x \in Names |-> 0] /\ pc = 1 /\ crashed = FALSE /\ torn = FALSE

Exec(o) ==
  CASE o.op = "opentrunc" -> /\ files' = [files EXCEPT ![o.f] = "EMPTY"] /\ written' = [written EXCEPT ![o.f] = 0]
    [] o.op = "create"    -> /\ files' = [files EXCEPT ![o.f] = "EMPTY"] /\ written' = [written EXCEPT ![o.f] = 0]
    [] o.op = "write"     -> LET w == written[o.f] + o.n IN
                             /\ written' = [written EXCEPT ![o.f] = w]
                             /\ files' = [files EXCEPT ![o.f] = IF w >= Total THEN "NEW" ELSE "PART"]
    [] o.op = "rename"    -> /\ files' = [files EXCEPT ![o.g] = files[o.f], ![o.f] = "ABSENT"]
                             /\ written' = [written EXCEPT ![o.g] = written[o.f], ![o.f] = 0]
    [] o.op = "unlink"    -> /\ files' = [files EXCEPT ![o.f] = "ABSENT"] /\ UNCHANGED written
    [] OTHER              -> UNCHANGED <<files, written>>

Step == ~crashed /\ pc <= Len(Ops) /\ Exec(Ops[pc]) /\ pc' = pc + 1 /\ UNCHANGED <<crashed, torn>>
Crash == ~crashed /\ pc <= Len(Ops) + 1 /\ crashed' = TRUE /\ UNCHANGED <<files, written, pc, torn>>
TornWrite == /\ ~crashed /\ pc <= Len(Ops) /\ Ops[pc].op = "write" /\ Ops[pc].n > 1
             /\ files' = [files EXCEPT ![Ops[pc].f] = "PART"] /\ crashed' = TRUE /\ torn' = TRUE /\ UNCHANGED <<written, pc>>
Next == Step \/ Crash \/ TornWrite
Spec == Init /\ [][Next]_vars

Recovered == files["S"]
\* C12: after the process died at any moment, the session is the complete old or the complete new state
C12_Atomic == (crashed /\ ~torn) => Recovered \in {"OLD", "NEW"}
C12_AtomicTorn == (crashed /\ torn) => Recovered \in {"OLD", "NEW"}
C12_OthersUntouched == files["N"] = "OLD"
C12_CompletesNew == (~crashed /\ pc = Len(Ops) + 1) => Recovered = "NEW"
\* one line per crash point: what recovery finds if the process dies before operation pc
Emit == (crashed' /\ ~torn') => PrintT(<<"MBT", ToJson([k |-> pc, class |-> files'["S"]])>>)
=============================================================================
