-------------------------------- MODULE KvMC --------------------------------
(* (1) the keyed-map model under all operation sequences to a bound: the     *)
(*     statements of C10 hold of it (and behaviours are emitted for replay   *)
(*     on every real backend);                                               *)
(* (2) injectivity of the storage-key encoding over adversarial short        *)
(*     session ids and keys (C11): every colliding pair is emitted.          *)
EXTENDS KvStore, Json
CONSTANTS MaxOps, Keys, Sids, Langs, MCTypes
VARIABLES g, n, last, nv, hist
vars == <<g, n, last, nv, hist>>
O(op, t, s, k, v, b) == [op |-> op, t |-> t, s |-> s, k |-> k, v |-> v, b |-> b]
Vid(i) == IF i = 0 THEN "v0" ELSE IF i = 1 THEN "v1" ELSE IF i = 2 THEN "v2" ELSE IF i = 3 THEN "v3" ELSE IF i = 4 THEN "v4" ELSE IF i = 5 THEN "v5" ELSE "v6"
Ops == {O("setprefix", t, "", "", "", FALSE) : t \in MCTypes}
       \cup {O("setsession", 0, s, "", "", FALSE) : s \in Sids}
       \cup {O("setlang", 0, l, "", "", FALSE) : l \in Langs}
       \cup {O("setctxlang", 0, l, "", "", FALSE) : l \in Langs}
       \cup {O("setlock", t, "", "", "", b) : t \in (MCTypes \cap SafeLock) \cup {0, TMENU + TSTATIC, TMENU + TSTATE}, b \in BOOLEAN}
       \cup {O("put", 0, "", k, Vid(nv), FALSE) : k \in Keys}
       \cup {O("put", 0, "", k, "", FALSE) : k \in Keys}          \* the empty value is a value
       \cup {O("get", 0, "", k, "", FALSE) : k \in Keys}
Init == g = Store0 /\ n = 0 /\ nv = 0 /\ hist = <<>> /\ last = [o |-> O("none", 0, "", "", "", FALSE), pre |-> Store0, res |-> "ok", val |-> ""]
Next == /\ n < MaxOps
        /\ \E o \in Ops : LET r == Apply(g, o) IN
             /\ g' = r.g /\ n' = n + 1 /\ nv' = IF o.op = "put" THEN nv + 1 ELSE nv
             /\ last' = [o |-> o, pre |-> g, res |-> r.res, val |-> r.val]
             /\ hist' = Append(hist, o)
Spec == Init /\ [][Next]_vars
View == <<g, n, last, nv>>
Emit == (n' = MaxOps) => PrintT(<<"MBT", ToJson(hist')>>)

C10_LockedPutNoChange == (last.o.op = "put" /\ last.pre.h.pfx \in last.pre.h.lock) => last.res = "err" /\ g.m = last.pre.m
C10_SealIrreversible  == (last.o.op = "setlock" /\ last.pre.h.seal) => last.res = "err" /\ g.h = last.pre.h
C10_SealedIsSafe      == g.h.seal => SafeLock \subseteq g.h.lock
C10_ReadYourWrite     == (last.o.op = "put" /\ last.res = "ok") => Apply(g, [last.o EXCEPT !.op = "get"]).val = last.o.v
C10_OnlyPutChanges    == last.o.op # "put" => g.m = last.pre.m
=============================================================================
