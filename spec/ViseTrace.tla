----------------------------- MODULE ViseTrace -----------------------------
(***************************************************************************)
(* Trace validation of the real VM against Vise.tla.                       *)
(* "instr" lines (one per iteration of vm.Run, from the verif hook) carry  *)
(* the complete projected pre- and post-state and the logged resource      *)
(* interactions of that iteration; Iter is applied to the logged pre-state *)
(* and each property compares its own projection with the logged post.     *)
(***************************************************************************)
EXTENDS Vise, TraceBase

FromKVV(q) == [k \in {q[i].k : i \in DOMAIN q} |->
                 LET i == CHOOSE j \in DOMAIN q : q[j].k = k IN V(q[i].id, q[i].len)]
FromKV(q) == [k \in {q[i].k : i \in DOMAIN q} |-> LET i == CHOOSE j \in DOMAIN q : q[j].k = k IN q[i].v]
CacheFromLog(j) == [frames |-> [i \in 1..Len(j.frames) |-> FromKVV(j.frames[i])], sizes |-> FromKV(j.sizes),
                    used |-> j.used, cap |-> j.cap, last |-> V(j.last.id, j.last.len)]
FromLog(j, ext, ctxlang) ==
  [path |-> j.path, idx |-> j.idx, flags |-> ToSet(j.flags), code |-> j.code, c |-> CacheFromLog(j.c), nflags |-> j.nflags,
   input |-> j.input, lang |-> j.lang, ctxlang |-> ctxlang,
   mapped |-> FromKVV(j.mapped), psink |-> j.psink, errp |-> j.errp,
   menu |-> j.menu, browse |-> j.browse, pcount |-> j.pcount, msink |-> j.msink,
   ext |-> ext, pick |-> <<>>, calls |-> <<>>, looks |-> <<>>, bad |-> "", langbad |-> FALSE, force |-> ""]

NoProg == <<>>

IsInstr == Have /\ Ev.ev = "instr" /\ Ev.pre.codeok
Pre == FromLog(Ev.pre, Ev.ext, "")
Post == FromLog(Ev.post, <<>>, "")
Step == Iter(Pre)
Ins == IF Ev.pre.code = <<>> THEN I("NONE", "", "", 0, 0, "") ELSE Ev.pre.code[1]
Running == TERMINATE \notin Pre.flags
Op(o) == Running /\ Ins.op = o
Cond == Op("INCMP") \/ Op("CATCH")            \* instructions that move conditionally
\* outcomes of the iteration if the conditional move were taken / not taken (used by the properties that
\* speak about the EFFECT of moves, so that a wrong DECISION is charged to C03 / C06 only)
Alts == IF Cond THEN {Step.s, Iter([Pre EXCEPT !.force = "take"]).s, Iter([Pre EXCEPT !.force = "skip"]).s} ELSE {Step.s}
Judged == IsInstr /\ ~Step.panic

\* ---- C03: client input is routed by the first matching INCMP, once; no match -> catch with the input shown
C03_Step == Judged /\ Op("INCMP") =>
              /\ NavProj(Step.s) = NavProj(Post)
              /\ (READIN \in Step.s.flags) = (READIN \in Post.flags)
              /\ (INMATCH \in Step.s.flags) = (INMATCH \in Post.flags)
              /\ (~Ev.last => Step.s.code = Post.code)
              /\ (Ev.last <=> Step.done)
\* falling out of the code while reading input: invalid-input message showing that input, then the catch node
C03_NoMatch == Judged /\ Running /\ (Step.s.errp.cls = "invalid" \/ Post.errp.cls = "invalid") /\ Step.s.errp # Pre.errp =>
              /\ Step.s.errp = Post.errp
              /\ (~Ev.last => Step.s.code = Post.code)
C03_InmatchCleared == Judged /\ Running /\ WAIT \in Pre.flags /\ ~Op("INCMP") => INMATCH \notin Post.flags

\* ---- C04: position follows the move table, at every step, for every instruction kind
C04_Nav == Judged => NavProj(Post) \in {NavProj(a) : a \in Alts}

\* ---- C05: symbol lifetime; LOAD at most once while visible; RELOAD replaces; MAP until the next move
C05_Load == Judged /\ (Op("LOAD") \/ Op("RELOAD") \/ Op("MAP")) =>
              /\ CacheProj(Step.s) = CacheProj(Post)
              /\ MapProj(Step.s) = MapProj(Post)
              /\ Step.s.bad = "" /\ Step.s.ext = <<>>            \* external calls made = external calls expected
C05_Scope == Judged => /\ CacheProj(Post) \in {CacheProj(a) : a \in Alts}
                       /\ MapProj(Post) \in {MapProj(a) : a \in Alts}

\* ---- C06: flags steer control flow; reserved flags tamper-proof; TERMINATE blocks
InputFlags == {READIN, INMATCH}                    \* these two belong to C03
C06_Flags == Judged => FlagProj(Post) \ InputFlags \in {FlagProj(a) \ InputFlags : a \in Alts}
C06_Ctl   == Judged /\ (Op("CATCH") \/ Op("CROAK")) =>
              /\ NavProj(Step.s) = NavProj(Post)
              /\ FlagProj(Step.s) = FlagProj(Post)
              /\ (~Ev.last => Step.s.code = Post.code)
              /\ (Ev.last <=> Step.done)
C06_Blocked == IsInstr /\ ~Running => /\ Ev.ext = <<>> /\ Ev.last
                                      /\ NavProj(Post) = NavProj(Pre) /\ CacheProj(Post) = CacheProj(Pre)
                                      /\ FlagProj(Post) = FlagProj(Pre)

\* ---- C08: no panic on anything a well-formed program and any input can cause; session stays consistent
C08_NoPanic == Have /\ Ev.ev = "instr" => (Ev.panic => (IsInstr /\ Step.panic))     \* only the modelled out-of-hypothesis panics
C08_Levels  == Judged /\ Levels(Pre) => Levels(Post)
C08_Account == IsInstr /\ Consistent(Pre.c) => Consistent(Post.c)

\* ---- C18: the language changes exactly as the external results say
C18_Lang == Judged => Step.s.lang = Post.lang

\* ---- conformance of everything else (drift only, never a verdict)
Drift_Code == Judged => /\ (Ev.last <=> Step.done)
                        /\ ((Running /\ (~Ev.last \/ Ins.op = "HALT")) => Step.s.code = Post.code)
                        /\ Step.s.errp = Post.errp
                        /\ Step.s.bad = "" /\ Step.s.ext = <<>>
Drift_Menu == Judged => MenuProj(Step.s) = MenuProj(Post)
Drift_State == Judged => /\ NavProj(Step.s) = NavProj(Post) /\ FlagProj(Step.s) = FlagProj(Post)
                         /\ CacheProj(Step.s) = CacheProj(Post) /\ MapProj(Step.s) = MapProj(Post)

\* ---- hook soundness
Continuity == (l > 2 /\ Have /\ Ev.ev = "instr" /\ Ev.seq > 0) =>
                 LET p == Trace[l - 2] IN p.ev = "instr" /\ p.sid = Ev.sid /\ p.req = Ev.req /\ p.seq + 1 = Ev.seq /\ p.post = Ev.pre
=============================================================================
