----------------------------- MODULE ViseTrace -----------------------------
(***************************************************************************)
(* Trace validation of the real VM against Vise.tla.                       *)
(* "instr" lines (one per iteration of vm.Run, from the verif hook) carry  *)
(* the complete projected pre- and post-state and the logged resource      *)
(* interactions of that iteration; Iter is applied to the logged pre-state *)
(* and each property compares its own projection with the logged post.     *)
(***************************************************************************)
EXTENDS Engine, TraceBase, Loop

FromKVV(q) == [k \in {q[i].k : i \in DOMAIN q} |->
                 LET i == CHOOSE j \in DOMAIN q : q[j].k = k IN V(q[i].id, q[i].len)]
FromKV(q) == [k \in {q[i].k : i \in DOMAIN q} |-> LET i == CHOOSE j \in DOMAIN q : q[j].k = k IN q[i].v]
CacheFromLog(j) == [frames |-> [i \in 1..Len(j.frames) |-> FromKVV(j.frames[i])], sizes |-> FromKV(j.sizes),
                    used |-> j.used, cap |-> j.cap, last |-> V(j.last.id, j.last.len)]
FromLog(j, ext, ctxlang) ==
  [path |-> j.path, idx |-> j.idx, flags |-> ToSet(j.flags), code |-> j.code, c |-> CacheFromLog(j.c), nflags |-> j.nflags,
   maxlevel |-> j.maxlevel,
   input |-> j.input, lang |-> j.lang, ctxlang |-> ctxlang,
   mapped |-> FromKVV(j.mapped), psink |-> j.psink, errp |-> j.errp,
   menu |-> j.menu, browse |-> j.browse, pcount |-> j.pcount, msink |-> j.msink,
   ext |-> ext, pick |-> <<>>, calls |-> <<>>, looks |-> <<>>, bad |-> "", langbad |-> FALSE, force |-> ""]

NoProg == <<>>

IsInstr == Have /\ Ev.ev = "instr" /\ Ev.pre.codeok
Pre == FromLog(Ev.pre, Ev.ext, "")
Post == FromLog(Ev.post, <<>>, "")
Step == Iter(Pre)
Ins == IF Ev.pre.code = <<>> THEN I("NONE", "", "", 0, 0, "") ELSE Ev.pre.code[1]
Running == TERMINATE \notin Pre.flags
Op(o) == Running /\ Ins.op = o
Cond == Op("INCMP") \/ Op("CATCH")            \* instructions that move conditionally
\* Properties that speak about the EFFECT of a move (C04, C05, C06 flags) must not be tripped by a wrong DECISION to
\* move (that is C03's / C06_Ctl's business).  The decision the real code took is observable: a taken move fetches the
\* target's code.  So the effect is judged against the iteration with the conditional move FORCED the way the real
\* code went: taken if a code lookup was logged, otherwise not taken (or taken-and-failed, which leaves no lookup).
Moved == \E i \in DOMAIN Ev.ext : Ev.ext[i].kind = "code"
Taken == Iter([Pre EXCEPT !.force = "take"]).s
Skipped == Iter([Pre EXCEPT !.force = "skip"]).s
Alts == IF ~Cond THEN {Step.s} ELSE IF Moved THEN {Taken} ELSE {Skipped, Taken}
\* a step that crashed in the real code is charged to C08 alone
Judged == IsInstr /\ ~Step.panic /\ ~Ev.panic

\* ---- C03: client input is routed by the first matching INCMP, once; no match -> catch with the input shown
C03_Step == Judged /\ Op("INCMP") =>
              /\ NavProj(Step.s) = NavProj(Post)
              /\ (READIN \in Step.s.flags) = (READIN \in Post.flags)
              /\ (INMATCH \in Step.s.flags) = (INMATCH \in Post.flags)
              /\ (~Ev.last => Step.s.code = Post.code)
              /\ (Ev.last <=> Step.done)
              /\ Step.s.bad = "" /\ Step.s.ext = <<>>          \* the code fetched is that of the node the move reached
\* falling out of the code while reading input: invalid-input message showing that input, then the catch node
C03_NoMatch == Judged /\ Running /\ (Step.s.errp.cls = "invalid" \/ Post.errp.cls = "invalid") /\ Step.s.errp # Pre.errp =>
              /\ Step.s.errp = Post.errp
              /\ (~Ev.last => Step.s.code = Post.code)
C03_InmatchCleared == Judged /\ Running /\ WAIT \in Pre.flags /\ ~Op("INCMP") => INMATCH \notin Post.flags

\* ---- C04: position follows the move table, at every step, for every instruction kind
C04_Nav == Judged => NavProj(Post) \in {NavProj(a) : a \in Alts}
\* ... and the code that continues the run is the code of the node that is on top afterwards
C04_Code == Judged /\ Op("MOVE") => Step.s.bad = "" /\ Step.s.ext = <<>> /\ (~Ev.last => Step.s.code = Post.code)

\* ---- C05: symbol lifetime; LOAD at most once while visible; RELOAD replaces; MAP until the next move
C05_Load == Judged /\ (Op("LOAD") \/ Op("RELOAD") \/ Op("MAP")) =>
              /\ CacheProj(Step.s) = CacheProj(Post)
              /\ MapProj(Step.s) = MapProj(Post)
              /\ Step.s.bad = "" /\ Step.s.ext = <<>>            \* external calls made = external calls expected
C05_Scope == Judged => /\ CacheProj(Post) \in {CacheProj(a) : a \in Alts}
                       /\ MapProj(Post) \in {MapProj(a) : a \in Alts}

\* ---- C06: flags steer control flow; reserved flags tamper-proof; TERMINATE blocks
InputFlags == {READIN, INMATCH}                    \* these two belong to C03
C06_Flags == Judged => FlagProj(Post) \ InputFlags \in {FlagProj(a) \ InputFlags : a \in Alts}
C06_Ctl   == Judged /\ (Op("CATCH") \/ Op("CROAK")) =>
              /\ NavProj(Step.s) = NavProj(Post)
              /\ FlagProj(Step.s) = FlagProj(Post)
              /\ (~Ev.last => Step.s.code = Post.code)
              /\ (Ev.last <=> Step.done)
              /\ Step.s.bad = "" /\ Step.s.ext = <<>>          \* the code fetched is that of the node the move reached
C06_Blocked == IsInstr /\ ~Running /\ ~Ev.panic => /\ Ev.ext = <<>> /\ Ev.last
                                      /\ NavProj(Post) = NavProj(Pre) /\ CacheProj(Post) = CacheProj(Pre)
                                      /\ FlagProj(Post) = FlagProj(Pre)

\* ---- C08: no panic on anything a well-formed program and any input can cause; session stays consistent
C08_NoPanic == Have /\ Ev.ev = "instr" => ~Ev.panic
C08_Levels  == IsInstr /\ ~Step.panic /\ ~Ev.panic /\ Levels(Pre) => Levels(Post)
C08_Account == IsInstr /\ Consistent(Pre.c) => Consistent(Post.c)

\* ---- C18: the language changes exactly as the external results say
C18_Lang == Judged => Step.s.lang = Post.lang

\* ---- conformance of everything else (drift only, never a verdict)
Drift_Code == Judged => /\ (Ev.last <=> Step.done)
                        /\ ((Running /\ (~Ev.last \/ Ins.op = "HALT")) => Step.s.code = Post.code)
                        /\ Step.s.errp = Post.errp
                        /\ Step.s.bad = "" /\ Step.s.ext = <<>>
Drift_Menu == Judged => MenuProj(Step.s) = MenuProj(Post)
Drift_State == Judged => /\ NavProj(Step.s) = NavProj(Post) /\ FlagProj(Step.s) = FlagProj(Post)
                         /\ CacheProj(Step.s) = CacheProj(Post) /\ MapProj(Step.s) = MapProj(Post)

(***************************************************************************)
(* "req" lines: one per client request (Exec + Flush [+ Finish, persisted  *)
(* mode]) with the session before, after Exec, after Flush, the stored     *)
(* record re-read, all resource interactions, results and output.          *)
(***************************************************************************)
IsReq == Have /\ Ev.ev = "req" /\ Ev.pre.codeok
RPre == FromLog(Ev.pre, Ev.ext, "")
RPost == FromLog(Ev.post, <<>>, "")
RPost2 == FromLog(Ev.post2, <<>>, "")
RSaved == FromLog(Ev.saved, <<>>, "")
REng == WithCfg([NewEngine(IF Ev.mode = "P" THEN Volatile(RPre) ELSE RPre) EXCEPT !.initd = ~Ev.fresh, !.execd = Ev.pending, !.exiting = Ev.pending], Ev.cfg)
\* "until the flag is cleared": with ResetOnEmptyInput the empty input clears TERMINATE and restarts the session
Restarts == Ev.cfg.rempty /\ Ev.input = ""
RQ == ExecReq(REng, Ev.input, Ev.incls)
RJudged == IsReq /\ ~RQ.panic /\ Ev.panic = ""
Refused == Ev.incls # "ok"
PersProj(s) == [nav |-> NavProj(s), flags |-> s.flags, cache |-> CacheProj(s), lang |-> s.lang]
ClientFlags(s) == {f \in s.flags : f >= 8}

\* ---- C03 at the client: the catch page shows the invalid-input message with that input
C03_MessageShown == IsReq /\ Ev.panic = "" /\ Ev.post.havevm /\ RPost.errp.cls = "invalid" /\ Ev.flushed /\ ~Ev.ferr /\ Ev.outlen > 0 =>
                       Ev.outerr = RPost.errp

\* ---- C03 / C04 at request level: the VM routes THIS request's input, and the position after the request is the one the
\*      specification gives for it (whatever the engine did around the run)
C03_RoutedInput == RJudged /\ ~Refused /\ RQ.ran /\ Ev.niter > 0 => RPost.input = In(Ev.input)
C04_ReqNav == RJudged /\ ~Refused => NavProj(RQ.e.s) = NavProj(RPost)

\* ---- C05 at request level: no cache scope outlives its stack level (one scope per level and the base scope at most;
\*      fewer only after a CROAK, which is C08's known finding)
C05_ReqNoOrphanScope == IsReq /\ Ev.panic = "" /\ Ev.fpanic = "" /\ Levels(RPre) => Len(RPost2.c.frames) <= Len(RPost2.path) + 1

\* ---- C17: refused input has no effect
\* (not judged for applications with a pre-VM check: by design it runs, in its scratch scope, before the input is validated)
\* (long-lived and per-request-persister operation; requests through a KEPT persister are judged by their transcripts, C17_AsIfNeverSent)
C17_Refused == IsReq /\ Refused /\ ~Ev.cfg.first /\ Ev.mode \in {"L", "P"} =>
                 /\ Ev.err /\ Ev.niter = 0 /\ Ev.ext = <<>> /\ Ev.panic = ""
                 /\ PersProj(RPost) = PersProj(RPre)
                 /\ (RPost.code = RPre.code \/ (RPre.code = <<>> /\ RPost.code = RootCode))
                 /\ (Ev.mode = "P" /\ Ev.havesave => /\ PersProj(RSaved) = PersProj(RPre)
                                                      /\ (RSaved.code = RPre.code \/ (RPre.code = <<>> /\ RSaved.code = RootCode)))
\* ... with a pre-VM check the check itself has run (its flag changes are the application's own doing); the refused input
\* still moves nothing, loads nothing, leaves every cache scope where it was and the pending code as it was
C17_RefusedFirst == IsReq /\ Refused /\ Ev.cfg.first /\ Ev.mode \in {"L", "P"} /\ Ev.panic = "" =>
                 /\ Ev.niter = 0 /\ (RJudged => RQ.err = Ev.err /\ RQ.cont = Ev.cont)  \* (a check that ends the session answers the request itself)
                 /\ NavProj(RPost) = NavProj(RPre) /\ CacheProj(RPost) = CacheProj(RPre) /\ Len(RPost.c.frames) = Len(RPre.c.frames)
                 /\ RPost.lang = RPre.lang
                 /\ (RPost.code = RPre.code \/ (RPre.code = <<>> /\ RPost.code = RootCode))
                 /\ (Ev.mode = "P" /\ Ev.havesave => /\ NavProj(RSaved) = NavProj(RPre) /\ CacheProj(RSaved) = CacheProj(RPre)
                                                      /\ Len(RSaved.c.frames) = Len(RPre.c.frames))
C17_RefusedOutput == IsReq /\ Refused /\ Ev.flushed /\ ~Ev.cfg.first => Ev.outlen = 0 /\ Ev.fext = <<>>

\* ---- C20 / C06: end of session
C20_Outcome == RJudged /\ ~Refused => /\ RQ.cont = Ev.cont /\ RQ.err = Ev.err
                                       /\ NavProj(RQ.e.s) = NavProj(RPost)
                                       /\ ClientFlags(RQ.e.s) = ClientFlags(RPost)
                                       /\ (TERMINATE \in RQ.e.s.flags) = (TERMINATE \in RPost.flags)
                                       /\ (~Ev.err => RQ.e.s.code = RPost.code)
C20_GracefulEnd == RJudged /\ ~Refused /\ RQ.e.exiting /\ Ev.flushed /\ ~Ev.ferr =>
                     /\ RPost2.path = <<>> /\ RPost2.c.frames = <<EmptyF>> /\ RPost2.c.used = 0
                     /\ TERMINATE \notin RPost2.flags /\ ClientFlags(RPost2) = ClientFlags(RPost)
                     /\ Ev.outlen > 0
\* the value appended to the final output is the last value loaded - also when that is the empty value
C20_ExitValue == RJudged /\ ~Refused => /\ RQ.e.exit = V(Ev.exit.id, Ev.exit.len)
                                         /\ RQ.e.s.c.last = RPost.c.last
C20_Blocked == IsReq /\ ~Refused /\ TERMINATE \in RPre.flags /\ ~Restarts =>
                     /\ ~Ev.cont /\ Ev.ext = <<>> /\ Ev.outlen = 0 /\ Ev.fext = <<>> /\ Ev.panic = ""
                     /\ PersProj(RPost2) = PersProj(RPre)
C20_Restart == RJudged /\ ~Refused /\ Ev.fresh /\ RPre.code = <<>> /\ RPre.path = <<>> /\ TERMINATE \notin RPre.flags /\ ~Ev.err /\ Ev.niter > 0 =>
                     Len(RPost.path) >= 1 /\ RPost.path[1] = Root

\* ---- C06 at request level: whether a CROAK (or code that runs out) ends the session or goes to the catch node is decided by
\*      what THIS request did with its input - a run that starts from the session as it was before the request and follows the
\*      specification ends terminated / not terminated, at the same position, with the same client flags as the real one
C06_ReqCtl == RJudged /\ ~Refused => /\ (TERMINATE \in RQ.e.s.flags) = (TERMINATE \in RPost.flags)
                                      /\ NavProj(RQ.e.s) = NavProj(RPost)
                                      /\ ClientFlags(RQ.e.s) = ClientFlags(RPost)
                                      /\ RQ.cont = Ev.cont

\* ---- C08: no panic, consistent session after every request, session can be saved and loaded
C08_ReqNoPanic == Have /\ Ev.ev = "req" => Ev.panic = "" /\ Ev.fpanic = ""
C08_ReqLevels  == IsReq /\ Ev.panic = "" /\ Levels(RPre) => Levels(RPost2)
C08_ReqAccount == IsReq /\ Consistent(RPre.c) => Consistent(RPost2.c)
C08_Resumable  == IsReq /\ Ev.mode = "P" /\ Ev.panic = "" /\ Ev.fpanic = "" /\ ~(Ev.fresh /\ Ev.incls = "long") =>
                     ~Ev.finerr /\ Ev.havesave

\* a request that is refused (bad format, over-long) leaves the session able to continue: the code that was pending is still pending
C08_RefusedContinuable == IsReq /\ Refused /\ ~Ev.cfg.first /\ Ev.mode \in {"L", "P"} /\ Ev.panic = "" /\ Ev.fpanic = "" /\ RPre.code # <<>> =>
                     /\ RPost.code = RPre.code /\ RPost2.code = RPre.code /\ NavProj(RPost2) = NavProj(RPre)

\* ... and no accepted input (unknown selector, browsing past either end, ...) ends a session that the specification keeps alive:
\* the session is blocked after the request exactly when the specification says so, and has pending code exactly when it says so
C08_ReqContinuable == RJudged /\ ~Refused =>
                     /\ (TERMINATE \in RPost.flags) = (TERMINATE \in RQ.e.s.flags)
                     /\ (~Ev.err => ((RPost.code = <<>>) <=> (RQ.e.s.code = <<>>)))

\* ---- C07: saving and loading changes nothing a later request can observe
\* (Finish writes the session only if the engine object got through init: not after a refused first input, or a pre-VM check that stopped the request)
C07_Snapshot == IsReq /\ Ev.mode = "P" /\ Ev.havesave /\ Ev.initd /\ Ev.panic = "" /\ Ev.fpanic = "" =>
                     /\ PersProj(RSaved) = PersProj(RPost2) /\ RSaved.code = RPost2.code
                     /\ RSaved.c.sizes = RPost2.c.sizes /\ RSaved.c.last = RPost2.c.last

\* ---- C18: every lookup of the request is made in the session language
LangOf(entries) == {entries[i].ctxlang : i \in DOMAIN entries}
C18_ExecLookups == RJudged /\ ~Refused => ~RQ.e.s.langbad
C18_FlushLookups == IsReq /\ Ev.flushed /\ Ev.fext # <<>> /\ Ev.niter >= 0 => LangOf(Ev.fext) \subseteq {RPost.lang}
C18_LangPersisted == IsReq /\ Ev.mode = "P" /\ Ev.havesave /\ Ev.panic = "" => RSaved.lang = RPost2.lang

\* ---- C01 at engine level: whatever Flush hands out fits the configured output size
C01_FlushFits == IsReq /\ Ev.flushed /\ Ev.outsize > 0 => Ev.outlen <= Ev.outsize

\* ---- drift: the rest of the request-level model
Drift_Req == RJudged /\ ~Refused => /\ PersProj(RQ.e.s) = PersProj(RPost)
                                     /\ RQ.e.s.bad = "" /\ RQ.e.s.ext = <<>>
                                     /\ (RQ.ran <=> Ev.niter > 0)

(***************************************************************************)
(* "pair" lines: the same client history served twice by the real engine   *)
(* (long-lived vs persisted; with vs without refused inputs inserted),     *)
(* both transcripts cut at the end of the session.                         *)
(***************************************************************************)
IsPair(k) == Have /\ Ev.ev = "pair" /\ Ev.kind = k
C07_Equiv == IsPair("mode") => Ev.a = Ev.b
C17_AsIfNeverSent == IsPair("insert") => Ev.a = Ev.b
\* an application may keep ONE Persister object for all its requests (that is what WithFlush is for): loading a session
\* through it gives exactly what was saved, whatever the object held before
C07_Reuse == IsPair("reuse") => Ev.a = Ev.b
\* ... and a request served through such a persister (mode "R") leaves the cache as consistent as the stored session was
C07_ReuseExit == IsReq /\ Ev.mode = "R" /\ RJudged /\ ~Refused => /\ RQ.e.exit = V(Ev.exit.id, Ev.exit.len) /\ RQ.e.s.c.last = RPost.c.last
C07_ReuseConsistent == IsReq /\ Ev.mode = "R" /\ Ev.panic = "" /\ Consistent(RPre.c) => Consistent(RPost2.c)

(***************************************************************************)
(* "pair" lines of kind "loop": a history served through the real          *)
(* engine.Loop (reader handing out one line per Read, writer tagging every *)
(* Write with the lines consumed) next to the same history served request  *)
(* by request on one long-lived engine (a), and the inputs after the last  *)
(* line served by fresh engines from the store Loop's engine saved to.     *)
(* Loop.tla says what the driver makes of the engine's answers.            *)
(***************************************************************************)
IsLoop == IsPair("loop") /\ ~Ev.refpanic
\* the reference was given exactly the inputs Loop.tla says the engine gets
C07_LoopInputs == IsLoop => \A i \in DOMAIN Ev.refin : Ev.refin[i] = LoopInput(Ev.raw, i)
\* number of inputs the reader could deliver: the initial value + the complete lines
LoopLines == Ev.nlines
LR == LoopRun(Ev.a, LoopLines)
C08_LoopNoPanic == IsLoop => Ev.lpanic = ""
C07_LoopRefines == IsLoop /\ Ev.lpanic = "" => /\ Ev.w = LR.w
                                              /\ Ev.lerr = LR.err
\* Finish ran: the session continues from the store exactly where the reference continues
C07_LoopResume == IsLoop /\ Ev.lpanic = "" /\ Ev.persist /\ ~Ev.restpanic /\ LR.open =>
                     Ev.rest = SubSeq(Ev.a, LR.served + 1, Len(Ev.a))

(***************************************************************************)
(* "langout" lines: requests served from the real resource.DbResource over *)
(* the memory backend with translations for a subset of templates, menu    *)
(* labels and static symbols; the page is parsed into (kind, sym, variant) *)
(* tags.  C18: every lookup is made in the session language and falls back *)
(* to the default-language entry where no translation exists.              *)
(***************************************************************************)
IsLangOut == Have /\ Ev.ev = "langout" /\ ~Ev.err
HasTr(kind, sym, lg) == \E j \in DOMAIN Ev.translated : Ev.translated[j] = [kind |-> kind, sym |-> sym, lang |-> lg]
\* templates and menu labels are looked up when the page is rendered: in the language the session has after the request
C18_Translate == IsLangOut => \A i \in DOMAIN Ev.tags : Ev.tags[i].kind \in {"T", "L"} =>
                    Ev.tags[i].variant = IF Ev.lang # "" /\ HasTr(Ev.tags[i].kind, Ev.tags[i].sym, Ev.lang) THEN Ev.lang ELSE "default"
\* static symbols are loaded while the request executes: in the language the session had when the request began
\* (the nodes that load them do not switch language)
C18_TranslateStatic == IsLangOut /\ Ev.lang = Ev.langbefore => \A i \in DOMAIN Ev.tags : Ev.tags[i].kind = "S" =>
                    Ev.tags[i].variant = IF Ev.lang # "" /\ HasTr("S", Ev.tags[i].sym, Ev.lang) THEN Ev.lang ELSE "default"
\* the session language is the configured one until an external function selects another (valid) one, and from then on the
\* selected one: after every request it is the last valid code returned during that request, else what it was before
\* (across requests, engine objects, saving and loading, and the session starting over at the end of the program)
LangCode(c) == CASE c = "nor" -> "nor" [] c = "no" -> "nor" [] c = "fra" -> "fra" [] c = "swa" -> "swa" [] c = "en" -> "eng" [] c = "eng" -> "eng" [] OTHER -> ""
RECURSIVE AfterCalls(_, _)
AfterCalls(cur, calls) == IF calls = <<>> THEN cur
                          ELSE AfterCalls(IF LangCode(Head(calls)) # "" THEN LangCode(Head(calls)) ELSE cur, Tail(calls))
C18_LangKept == IsLangOut => Ev.lang = AfterCalls(IF Ev.req = 0 THEN Ev.cfglang ELSE Ev.prev, Ev.calls)
C18_PageHasText == IsLangOut /\ Ev.cont => Ev.tags # <<>>

\* ---- hook soundness
Continuity == (l > 2 /\ Have /\ Ev.ev = "instr" /\ Ev.seq > 0) =>
                 LET p == Trace[l - 2] IN p.ev = "instr" /\ p.sid = Ev.sid /\ p.req = Ev.req /\ p.seq + 1 = Ev.seq
                                          \* (a second run inside one request - the renderer's move to the catch node after a
                                          \*  browse error - starts from what Render left: no connection across the end of a run)
                                          /\ (p.post = Ev.pre \/ p.last)
=============================================================================
