------------------------------ MODULE Sessions ------------------------------
(***************************************************************************)
(* C19 on the design: independent sessions served concurrently over shared *)
(* immutable program data.  Sessions interleave at instruction granularity *)
(* (Next == \E s : Step(s)); the only plausible channel of interference is *)
(* made visible by modelling byte buffers as Go slices                     *)
(*     [arr, off, len, cap] over a heap of arrays:                         *)
(* append writes in place when len < cap -- including into an array that   *)
(* belongs to the RESOURCE when the pending-code buffer aliases it.        *)
(* Tokens: C n  fetch node n's code and make it the buffer (CATCH),        *)
(*         I a b  append the code of a or b, by the session's input        *)
(*         (INCMP / MOVE), X k  a plain instruction, H  halt.              *)
(* CopyOnCatch = TRUE is runCatch as repaired (the fetched code is copied);*)
(* FALSE is the code as it was (b = bh adopts the resource's slice), kept  *)
(* as the documented counterexample: with Spare > 0 TLC violates           *)
(* NoSharedWrite after 3 steps and NonInterference after 5.                *)
(***************************************************************************)
EXTENDS Integers, Sequences, FiniteSets, TLC, Json
CONSTANTS Spare,        \* spare capacity of the slices the resource hands out
          CopyOnCatch   \* TRUE = the repaired runCatch (copies the fetched code)

Sess == {1, 2}
T(t, a, b) == [t |-> t, a |-> a, b |-> b]
Code == [ root |-> << T("C", "foo", "") >>,
          foo  |-> << T("I", "bar", "baz") >>,
          bar  |-> << T("X", "one", ""), T("H", "", "") >>,
          baz  |-> << T("X", "two", ""), T("H", "", "") >> ]
Nodes == DOMAIN Code
Id == [root |-> 1, foo |-> 2, bar |-> 3, baz |-> 4]      \* array ids of the resource; private arrays get 5, 6, ...
NRes == 4
Choice == [s \in Sess |-> IF s = 1 THEN "bar" ELSE "baz"]

Pad == T("-", "", "")
\* heap: array id -> sequence of tokens (length = capacity); resource arrays first
ResArr == [n \in Nodes |-> Code[n] \o [i \in 1..Spare |-> Pad]]
ResSlice(n) == [arr |-> Id[n], off |-> 0, len |-> Len(Code[n]), cap |-> Len(Code[n]) + Spare]

VARIABLES heap, buf, done, seen, nalloc, sched
vars == <<heap, buf, done, seen, nalloc, sched>>

Read(h, sl, i) == h[sl.arr][sl.off + i]
Content(h, sl) == [i \in 1..sl.len |-> Read(h, sl, i)]
TailS(sl) == [sl EXCEPT !.off = @ + 1, !.len = @ - 1, !.cap = @ - 1]

Init == /\ heap = [a \in 1..NRes |-> ResArr[CHOOSE n \in Nodes : Id[n] = a]]
        /\ buf = [s \in Sess |-> ResSlice("root")]      \* start: as if CATCH root
        /\ done = [s \in Sess |-> FALSE]
        /\ seen = [s \in Sess |-> <<>>]
        /\ nalloc = 0 /\ sched = <<>>

\* Go append(sl, xs): in place if it fits, else a fresh private array
Append_(h, sl, xs, id) ==
  IF sl.len + Len(xs) <= sl.cap
  THEN [h |-> [h EXCEPT ![sl.arr] = [i \in DOMAIN @ |-> IF i > sl.off + sl.len /\ i <= sl.off + sl.len + Len(xs)
                                                           THEN xs[i - sl.off - sl.len] ELSE @[i]]],
        sl |-> [sl EXCEPT !.len = @ + Len(xs)], fresh |-> FALSE]
  ELSE [h |-> [a \in DOMAIN h \cup {id} |-> IF a = id THEN Content(h, sl) \o xs ELSE h[a]],
        sl |-> [arr |-> id, off |-> 0, len |-> sl.len + Len(xs), cap |-> sl.len + Len(xs)], fresh |-> TRUE]

Step(s) ==
  /\ ~done[s]
  /\ LET sl == buf[s]
         tok == Read(heap, sl, 1)
         rest == TailS(sl) IN
     /\ seen' = [seen EXCEPT ![s] = Append(@, tok)]
     /\ CASE tok.t = "H" -> /\ done' = [done EXCEPT ![s] = TRUE]
                             /\ UNCHANGED <<heap, buf, nalloc>>
          [] tok.t = "X" -> /\ buf' = [buf EXCEPT ![s] = rest]
                             /\ UNCHANGED <<heap, done, nalloc>>
          [] tok.t = "C" -> LET n == tok.a IN
                             IF CopyOnCatch
                             THEN LET id == NRes + nalloc + 1 IN
                                  /\ heap' = [a \in DOMAIN heap \cup {id} |-> IF a = id THEN Code[n] ELSE heap[a]]
                                  /\ buf' = [buf EXCEPT ![s] = [arr |-> id, off |-> 0, len |-> Len(Code[n]), cap |-> Len(Code[n])]]
                                  /\ nalloc' = nalloc + 1 /\ UNCHANGED done
                             ELSE /\ buf' = [buf EXCEPT ![s] = ResSlice(n)]      \* b = bh : alias the resource's slice
                                  /\ UNCHANGED <<heap, done, nalloc>>
          [] tok.t = "I" -> LET n == IF Choice[s] = "bar" THEN tok.a ELSE tok.b
                                 r == Append_(heap, rest, Code[n], NRes + nalloc + 1) IN
                             /\ heap' = r.h /\ buf' = [buf EXCEPT ![s] = r.sl]
                             /\ nalloc' = (IF r.fresh THEN nalloc + 1 ELSE nalloc) /\ UNCHANGED done
          [] OTHER -> /\ done' = [done EXCEPT ![s] = TRUE] /\ UNCHANGED <<heap, buf, nalloc>>   \* garbage token: stop

Next == \E s \in Sess : Step(s) /\ sched' = Append(sched, s)
\* complete schedules (both sessions halted) are emitted for deterministic replay on the real VM (hook = scheduler gate)
Emit == (\A s \in Sess : done'[s]) => PrintT(<<"MBT", ToJson(sched')>>)
Spec == Init /\ [][Next]_vars

Solo == [s \in Sess |-> << T("C", "foo", ""), T("I", "bar", "baz"), T("X", IF s = 1 THEN "one" ELSE "two", ""), T("H", "", "") >>]
IsPrefix(p, q) == Len(p) <= Len(q) /\ \A i \in 1..Len(p) : p[i] = q[i]
NonInterference == \A s \in Sess : IsPrefix(seen[s], Solo[s])
NoSharedWrite == \A n \in Nodes : heap[Id[n]] = ResArr[n]
=============================================================================
