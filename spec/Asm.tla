--------------------------------- MODULE Asm ---------------------------------
(***************************************************************************)
(* The assembler (asm/asm.go, asm/menu.go) as a translation from abstract  *)
(* source lines to instruction records, per doc/texinfo/instructions.texi: *)
(* one instruction per plain line with the arguments exactly as written;   *)
(* batch menu lines (DOWN, UP, NEXT, PREVIOUS) accumulate and expand, at   *)
(* the next plain line or at the end, to                                   *)
(*     MOUT/MNEXT/MPREV ...  HALT  INCMP ...                               *)
(* line = [op, a, b, n, m, c]: a/b/c strings as written (c: DOWN's label), *)
(* n size or signal, m match mode.                                         *)
(* instr = [op, a, b, n, m]                                                *)
(***************************************************************************)
EXTENDS Integers, Sequences, FiniteSets, TLC

AI(op, a, b, n, m) == [op |-> op, a |-> a, b |-> b, n |-> n, m |-> m]
Batch == {"DOWN", "UP", "NEXT", "PREVIOUS"}
IsBatch(l) == l.op \in Batch

Plain(l) == CASE l.op \in {"HALT", "MSINK"} -> AI(l.op, "", "", 0, 0)
              [] l.op \in {"RELOAD", "MAP", "MOVE"} -> AI(l.op, l.a, "", 0, 0)
              [] l.op \in {"INCMP", "MOUT", "MNEXT", "MPREV"} -> AI(l.op, l.a, l.b, 0, 0)
              [] l.op = "LOAD" -> AI(l.op, l.a, "", l.n, 0)
              [] l.op = "CATCH" -> AI(l.op, l.a, "", l.n, l.m)
              [] l.op = "CROAK" -> AI(l.op, "", "", l.n, l.m)

\* batch line: a = selector, b = label; DOWN: a = symbol, b = selector, c = label
Pre(l)  == CASE l.op = "DOWN" -> AI("MOUT", l.c, l.b, 0, 0)
             [] l.op = "UP" -> AI("MOUT", l.b, l.a, 0, 0)
             [] l.op = "NEXT" -> AI("MNEXT", l.b, l.a, 0, 0)
             [] l.op = "PREVIOUS" -> AI("MPREV", l.b, l.a, 0, 0)
Post(l) == CASE l.op = "DOWN" -> AI("INCMP", l.a, l.b, 0, 0)
             [] l.op = "UP" -> AI("INCMP", "_", l.a, 0, 0)
             [] l.op = "NEXT" -> AI("INCMP", ">", l.a, 0, 0)
             [] l.op = "PREVIOUS" -> AI("INCMP", "<", l.a, 0, 0)
Expand(pend) == IF pend = <<>> THEN <<>>
                ELSE [i \in DOMAIN pend |-> Pre(pend[i])] \o <<AI("HALT", "", "", 0, 0)>> \o [i \in DOMAIN pend |-> Post(pend[i])]

RECURSIVE Tr(_, _)
Tr(src, pend) == IF src = <<>> THEN Expand(pend)
                 ELSE LET l == Head(src) IN
                      IF IsBatch(l) THEN Tr(Tail(src), Append(pend, l))
                      ELSE Expand(pend) \o <<Plain(l)>> \o Tr(Tail(src), <<>>)
Translate(src) == Tr(src, <<>>)
\* selector written in the line (the argument C16 says must not be altered)
SelectorOf(l) == CASE l.op \in {"INCMP", "MOUT", "MNEXT", "MPREV"} -> l.b
                   [] l.op = "DOWN" -> l.b
                   [] l.op \in {"UP", "NEXT", "PREVIOUS"} -> l.a
                   [] OTHER -> ""
=============================================================================
