------------------------------- MODULE PgTxMC -------------------------------
(* Exhaustive exploration: all operation sequences up to MaxOps, at most     *)
(* MaxFaults primitive calls failing, each fault placed at every primitive.  *)
EXTENDS PgTx, Json
CONSTANTS MaxOps, MaxFaults
VARIABLES h, g, n, faults, last, hist
vars == <<h, g, n, faults, last, hist>>

\* (the last two: a statement fails AND the rollback that cleans up after it fails - the error path of an error path)
FaultLists == {<<>>, <<TRUE>>, <<FALSE, TRUE>>, <<FALSE, FALSE, TRUE>>, <<TRUE, TRUE>>, <<FALSE, TRUE, TRUE>>}
Ops0 == [op : {"start", "stop", "close", "abort"}, k : {"-"}, v : {0}, fl : FaultLists, soft : {FALSE}]
       \cup [op : {"put"}, k : Keys, v : Vals, fl : FaultLists, soft : BOOLEAN] \cup [op : {"get"}, k : Keys, v : {0}, fl : FaultLists, soft : BOOLEAN]
\* (a soft failure is a property of a failing statement: only operations with a fault planned come in both kinds)
Ops == {o \in Ops0 : o.soft => \E i \in DOMAIN o.fl : o.fl[i]}
NF(fl) == Cardinality({i \in DOMAIN fl : fl[i]})
OpenTx(s) == Cardinality({i \in DOMAIN s.txs : ~s.txs[i].done})

Init == /\ h = Handle0 /\ g = G0 /\ n = 0 /\ faults = 0 /\ hist = <<>>
        /\ last = [op |-> [op |-> "none", k |-> "-", v |-> 0], g |-> G0, res |-> "ok", val |-> 0, log |-> <<>>, open |-> 0]
Next == /\ n < MaxOps
        /\ \E op \in Ops :
             /\ faults + NF(op.fl) <= MaxFaults
             /\ LET r == Apply(h, op) IN
                /\ NF(op.fl) > 0 => r.s.used >= Len(op.fl)        \* the planned fault was actually reached
                /\ h' = [r.s EXCEPT !.log = <<>>, !.fl = <<>>, !.used = 0]
                /\ g' = GhostStep(g, op, r.res)
                /\ n' = n + 1 /\ faults' = faults + NF(op.fl)
                /\ last' = [op |-> [op |-> op.op, k |-> op.k, v |-> op.v], g |-> g, res |-> r.res, val |-> r.val, log |-> r.s.log, open |-> OpenTx(r.s)]
                /\ hist' = Append(hist, [op |-> op.op, k |-> op.k, v |-> op.v, fl |-> op.fl, soft |-> op.soft, res |-> r.res, val |-> r.val])
Spec == Init /\ [][Next]_vars
View == <<h, g, n, faults, last>>
Emit == PrintT(<<"MBT", ToJson(hist')>>)

\* ---- C13 on the design; the clauses PgStopKeepsMulti breaks carry the carve-out ~last.g.kf / ~g.kf
C13_NoPanic       == NoPanicP(last.res)
C13_ErrorReported == ErrorReportedP(last.log, last.res)
C13_NoWedge       == ~last.g.kf => NoWedgeP(last.g, last.op, last.res, last.val, last.log)
C13_EndedOnce     == ~g.kf => EndedOnceP(g, last.open)
C13_Multi         == ~last.g.kf => MultiP(last.g, last.op, last.res, last.log)
C13_NoUnackedDurable == NoUnackedDurableP(g, h.committed)
C13_NotEndedTwice == NotEndedTwiceP(last.log)
C13_StopAcksByCommit == StopAcksByCommitP(last.g, last.op, last.res, last.log)
=============================================================================
