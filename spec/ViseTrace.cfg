SPECIFICATION TraceSpec
CONSTANTS
  UseLog = TRUE
  Prog <- NoProg
  Syms <- NoProg
  Root = "root"
  MaxLevel = 128
INVARIANTS C03_Step C03_NoMatch C03_InmatchCleared C04_Nav C05_Load C05_Scope C06_Flags C06_Ctl C06_Blocked C08_NoPanic C08_Levels C08_Account C18_Lang Drift_Code Drift_Menu Drift_State Continuity
CHECK_DEADLOCK FALSE
