SPECIFICATION Spec
CONSTANTS
  Keys = {"a", "b"}
  Ids = {"x"}
  Lens = {0, 1, 5, 65535, 65536, 70000}
  Limits = {0, 1, 5, 65535}
  Caps = {0, 6, 65536, 140000}
  MaxOps = 3
  MaxFrames = 3
ACTION_CONSTRAINT Emit
VIEW View
CHECK_DEADLOCK FALSE
