-------------------------------- MODULE Loop --------------------------------
(***************************************************************************)
(* engine.Loop (engine/loop.go): the line-oriented driver around an engine. *)
(*                                                                         *)
(*   Exec(initial); Flush; a line feed if anything was written; then, while *)
(*   the engine says "continue": read a line (a last line without its line  *)
(*   feed is NOT served), trim white space, Exec, Flush, line feed.  An     *)
(*   Exec error or a Flush error ends the loop with an error - except that  *)
(*   "flush before exec" is tolerated for the initial request.  Finish runs *)
(*   when the loop returns, however it returns (the session is saved).      *)
(*                                                                         *)
(* The engine is abstracted to the answers it gives:                        *)
(*   r = [cont, err, ferr, noexec, out]   Exec's (continue, error), Flush's *)
(*   error (noexec: it was "flush before exec") and the bytes Flush wrote.  *)
(* What these answers are is Engine.tla's business (ExecReq / FlushReq);    *)
(* this module says what the driver makes of them, and it is bound to the   *)
(* code by the "loop" lines of ViseTrace.                                   *)
(***************************************************************************)
EXTENDS Integers, Sequences

\* strings.TrimSpace on ASCII input, over byte sequences
LoopWS == {9, 10, 11, 12, 13, 32}
RECURSIVE LoopTrimL(_), LoopTrimR(_)
LoopTrimL(b) == IF Len(b) > 0 /\ b[1] \in LoopWS THEN LoopTrimL(SubSeq(b, 2, Len(b))) ELSE b
LoopTrimR(b) == IF Len(b) > 0 /\ b[Len(b)] \in LoopWS THEN LoopTrimR(SubSeq(b, 1, Len(b) - 1)) ELSE b
LoopTrim(b) == LoopTrimR(LoopTrimL(b))
\* what the engine is given for raw[i]: the initial value as it is, every line trimmed
LoopInput(raw, i) == IF i = 1 THEN raw[1] ELSE LoopTrim(raw[i])

\* what request i puts on the writer: the flushed bytes, then a line feed iff something was written and Flush succeeded
LoopWrites(r) == IF r.err THEN [body |-> "", nl |-> FALSE] ELSE [body |-> r.out, nl |-> r.out # "" /\ ~r.ferr]
LoopFails(r, i) == r.err \/ (r.ferr /\ ~(i = 1 /\ r.noexec))

(* rs: the engine's answers to LoopInput(raw, 1..), avail: number of inputs the reader can deliver (initial included) *)
(* result: what was written per executed request, whether Loop returns an error, how many requests were executed      *)
RECURSIVE LoopGo(_, _, _, _)
LoopGo(rs, i, avail, acc) ==
  LET r == rs[i]
      acc2 == Append(acc, LoopWrites(r)) IN
  IF LoopFails(r, i) THEN [w |-> acc2, err |-> TRUE, served |-> i, open |-> FALSE]
  ELSE IF ~r.cont THEN [w |-> acc2, err |-> FALSE, served |-> i, open |-> FALSE]
  ELSE IF i >= avail THEN [w |-> acc2, err |-> FALSE, served |-> i, open |-> TRUE]        \* end of input: the session goes on
  ELSE LoopGo(rs, i + 1, avail, acc2)
LoopRun(rs, avail) == LoopGo(rs, 1, avail, <<>>)
=============================================================================
