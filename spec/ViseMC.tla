------------------------------- MODULE ViseMC -------------------------------
(***************************************************************************)
(* Exhaustive exploration of one session of a model program: the client    *)
(* sends any input of the alphabet at every HALT (plus refused inputs),    *)
(* external functions return any of their alternative results, the VM runs *)
(* one loop iteration per TLC step, the engine flushes, and in persisted   *)
(* mode the session is saved and loaded between requests.                  *)
(*                                                                         *)
(* Ghost variables (g) restate the listed properties independently of the  *)
(* step function; `obs` (in the VIEW) is what the invariants read; `hist`  *)
(* (outside the VIEW) is the client-visible history, emitted as JSON so    *)
(* that every model transition can be replayed on the real engine.         *)
(***************************************************************************)
EXTENDS Engine, Json, IOUtils

CONSTANTS Mode,        \* "L" one long-lived engine, "P" fresh engine per request (save / load)
          MaxReq, Cap, NFlags

ProgFile == JsonDeserialize(IOEnv.VERIF_PROG)
MCProg == ProgFile.nodes
MCSyms == ProgFile.syms
Inputs == ToSetSeq(ProgFile.inputs) \cup {"BAD", "LONG"}
InClass(i) == IF i = "BAD" THEN "bad" ELSE IF i = "LONG" THEN "long" ELSE "ok"
SymNames == DOMAIN MCSyms
Cfg == ProgFile.engine      \* [first, rempty]: engine options of this application

VARIABLES e, phase, nreq, g, obs, hist
vars == <<e, phase, nreq, g, obs, hist>>

G0 == [inmoves |-> 0, matched |-> FALSE, read |-> FALSE, ok |-> TRUE, why |-> "", lvl |-> [k \in {} |-> 0], croaked |-> FALSE]
NoObs == [kind |-> "none", cont |-> TRUE, err |-> FALSE, panic |-> FALSE, page |-> NoPage, pre |-> NewSession(Cap, NFlags),
          input |-> "", incls |-> "ok", ran |-> FALSE, ended |-> FALSE, cf |-> {}]

Init == /\ e = WithCfg(NewEngine(NewSession(Cap, NFlags)), Cfg)
        /\ phase = "idle" /\ nreq = 0 /\ g = G0 /\ obs = NoObs
        /\ hist = <<>>

CodeLooks(s) == Len(SelectSeq(s.looks, LAMBDA x : x.kind = "code"))

(* ---- ghost: the properties restated over one loop iteration pre -> post *)
GhostStep(pre, r) ==
  LET post == r.s
      running == TERMINATE \notin pre.flags /\ pre.code # <<>>
      ins == IF pre.code = <<>> THEN I("NONE", "", "", 0, 0, "") ELSE Head(pre.code)
      moved == CodeLooks(post) > CodeLooks(pre)
      G(x, why) == IF x THEN g ELSE [g EXCEPT !.ok = FALSE, !.why = IF @ = "" THEN why ELSE @]
      \* C05 ghost: level at which each cached symbol was loaded
      newsyms == {k \in SymNames : Visible(post.c, k) /\ ~Visible(pre.c, k)}
      lvl1 == [k \in {x \in DOMAIN g.lvl : Visible(post.c, x)} \cup newsyms |->
                 IF k \in newsyms THEN Len(post.path) ELSE g.lvl[k]]
      \* KF-croak-keeps-path: a taken CROAK drops the cache scopes but keeps the path
      g1 == [g EXCEPT !.lvl = lvl1,
                      !.croaked = @ \/ (running /\ ins.op = "CROAK" /\ Len(post.c.frames) < Len(pre.c.frames))]
  IN
  IF ~running THEN g1
  ELSE IF ins.op = "INCMP" THEN
    LET sel == pre.input.set /\ (ins.b = pre.input.v \/ ins.b = "*")
        first == sel /\ ~g.matched
        prevAtZero == ins.ac = "<" /\ pre.idx = 0
        g2 == [g1 EXCEPT !.read = TRUE, !.matched = @ \/ sel, !.inmoves = @ + (IF moved THEN 1 ELSE 0)]
    IN IF first /\ ~prevAtZero /\ ~r.err /\ ~moved THEN [g2 EXCEPT !.ok = FALSE, !.why = "first matching INCMP did not move"]
       ELSE IF ~first /\ moved THEN [g2 EXCEPT !.ok = FALSE, !.why = "INCMP moved although not the first match"]
       ELSE g2
  ELSE g1

(* ---- actions *)
Request(in) ==
  /\ phase = "idle" /\ nreq < MaxReq
  /\ LET e0 == IF Mode = "P" THEN WithCfg(LoadEngine(e.s), Cfg) ELSE e
         b == ExecBegin([e0 EXCEPT !.s.calls = <<>>, !.s.looks = <<>>], in, InClass(in)) IN
     /\ nreq' = nreq + 1
     /\ g' = [G0 EXCEPT !.lvl = g.lvl, !.croaked = g.croaked]
     /\ hist' = Append(hist, [input |-> in, picks |-> <<>>])
     /\ IF b.stage = "stop"
        THEN /\ e' = b.e /\ phase' = "flush"
             /\ obs' = [NoObs EXCEPT !.kind = "exec", !.cont = b.cont, !.err = b.err, !.pre = e0.s, !.input = in, !.incls = InClass(in)]
        ELSE /\ e' = [b.e EXCEPT !.s = RunStart(@)] /\ phase' = b.stage           \* "run", or "first": the pre-VM check
             /\ obs' = [NoObs EXCEPT !.kind = "begin", !.pre = e0.s, !.input = in, !.incls = InClass(in)]

\* the external function about to be called (if any) may return any of its alternative results: the choice is
\* made when the call happens, and recorded in call order in the history
NextCall == IF TERMINATE \in e.s.flags \/ e.s.code = <<>> THEN ""
            ELSE LET ins == Head(e.s.code) IN
                 IF ins.a \in SymNames /\ (ins.op = "RELOAD" \/ (ins.op = "LOAD" /\ ~Visible(e.s.c, ins.a))) THEN ins.a ELSE ""
Step ==
  /\ phase = "run"
  /\ \E i \in (IF NextCall = "" THEN {1} ELSE 1..Len(MCSyms[NextCall])) :
     LET s0 == IF NextCall = "" THEN e.s ELSE [e.s EXCEPT !.pick = [k \in {NextCall} |-> i]]
         r0 == Iter(s0)
         r == [r0 EXCEPT !.s.pick = <<>>] IN
     /\ g' = GhostStep(e.s, r)
     /\ hist' = IF NextCall = "" THEN hist ELSE [hist EXCEPT ![Len(hist)].picks = Append(@, i)]
     /\ IF r.done
        THEN LET q == ExecEnd(e, r) IN
             /\ e' = q.e /\ phase' = "flush"
             /\ obs' = [obs EXCEPT !.kind = "exec", !.cont = q.cont, !.err = q.err, !.panic = q.panic, !.ran = TRUE]
        ELSE /\ e' = [e EXCEPT !.s = r.s] /\ phase' = "run" /\ obs' = [obs EXCEPT !.kind = "step"]
     /\ UNCHANGED nreq

\* one iteration of the pre-VM check (LOAD _first 0 / HALT in the scratch scope); when it is over the request goes on
\* with the application's code, or stops
FirstStep ==
  /\ phase = "first"
  /\ \E i \in (IF NextCall = "" THEN {1} ELSE 1..Len(MCSyms[NextCall])) :
     LET s0 == IF NextCall = "" THEN e.s ELSE [e.s EXCEPT !.pick = [k \in {NextCall} |-> i]]
         r0 == Iter(s0)
         r == [r0 EXCEPT !.s.pick = <<>>] IN
     /\ hist' = IF NextCall = "" THEN hist ELSE [hist EXCEPT ![Len(hist)].picks = Append(@, i)]
     /\ IF r.done
        THEN LET f == FirstEnd(e, r, obs.input, obs.incls) IN
             IF f.over THEN /\ e' = f.q.e /\ phase' = "flush"
                            /\ obs' = [obs EXCEPT !.kind = "exec", !.cont = f.q.cont, !.err = f.q.err, !.panic = f.q.panic]
             ELSE IF f.b.run THEN /\ e' = [f.b.e EXCEPT !.s = RunStart(@)] /\ phase' = "run" /\ obs' = [obs EXCEPT !.kind = "step"]
             ELSE /\ e' = f.b.e /\ phase' = "flush"
                  /\ obs' = [obs EXCEPT !.kind = "exec", !.cont = f.b.cont, !.err = f.b.err]
        ELSE /\ e' = [e EXCEPT !.s = r.s] /\ phase' = "first" /\ obs' = [obs EXCEPT !.kind = "step"]
     /\ UNCHANGED <<nreq, g>>

Flush ==
  /\ phase = "flush"
  /\ LET f == FlushReq(e, TRUE) IN
     /\ e' = f.e /\ phase' = "idle"
     /\ obs' = [obs EXCEPT !.kind = "flush", !.page = f.page, !.ended = e.exiting, !.cf = {x \in e.s.flags : x >= 8}]
  /\ UNCHANGED <<nreq, g, hist>>

Next == (\E in \in Inputs : Request(in)) \/ Step \/ FirstStep \/ Flush
Spec == Init /\ [][Next]_vars

View == <<e, phase, nreq, g, obs>>
\* One line per generated transition that completes a request, and one per transition that makes an external call
\* (histories that differ only in an external result can converge to one view-state at once - e.g. a RELOAD whose result
\* is refused - and would otherwise be emitted only once): the client history that reaches it, for replay on the real engine.
Emit == ((phase' = "idle" /\ phase = "flush") \/ (phase \in {"run", "first"} /\ NextCall # "")) =>
           PrintT(<<"MBT", ToJson([mode |-> Mode, hist |-> hist'])>>)

S == e.s
(* ---- C03 *)
C03_AtMostOneInputMove == g.inmoves <= 1
C03_FirstMatchWins     == g.ok
C03_NoMatchGoesToCatch == (obs.kind = "exec" /\ obs.ran /\ ~obs.err /\ g.read /\ ~g.matched /\ TERMINATE \notin S.flags) =>
                             Top(S) = "_catch" /\ S.errp = [cls |-> "invalid", arg |-> obs.input]
(* ---- C04 / C08 *)
\* (while the pre-VM check runs its scratch node "_first" is on top of the path)
AppPath == IF phase = "first" THEN SubSeq(S.path, 1, Len(S.path) - 1) ELSE S.path
C04_PositionWellFormed == /\ S.idx >= 0 /\ \A i \in 1..Len(AppPath) : AppPath[i] \in DOMAIN MCProg
                          /\ (Len(AppPath) > 0 => AppPath[1] = Root)
                          /\ (phase = "first" => S.path[Len(S.path)] = "_first")
\* one cache scope per navigation level (carve-out: the known finding KF-croak-keeps-path, ghost g.croaked)
C08_Levels == ~g.croaked => Levels(S)
C08_Consistent == Consistent(S.c)
C08_NoPanic == ~obs.panic
(* ---- C05 *)
C05_ScopeLifetime == ~g.croaked => \A k \in DOMAIN g.lvl : Visible(S.c, k) => (FrameOf(S.c, k) = g.lvl[k] + 1 /\ g.lvl[k] <= Len(S.path))
C05_LimitsHold == LimitsHold(S.c)
\* (a restart on empty input unwinds the session before the VM runs: the renderer registers are stale until its MOVE)
C05_MappedVisible == ~(Cfg.rempty /\ obs.kind = "begin") => \A k \in DOMAIN S.mapped : Visible(S.c, k)
(* ---- C06 *)
\* ("until the flag is cleared": with ResetOnEmptyInput the empty input clears it and restarts the session)
C06_TerminateBlocks == (obs.kind = "exec" /\ TERMINATE \in obs.pre.flags /\ obs.incls = "ok" /\ ~(Cfg.rempty /\ obs.input = "")) =>
                          /\ ~obs.cont /\ S.calls = <<>> /\ NavProj(S) = NavProj(obs.pre) /\ CacheProj(S) = CacheProj(obs.pre)
(* ---- C17 *)
\* (not judged for applications with a pre-VM check: by design it runs in the scratch scope before the input is validated)
C17_RejectNoEffect == (obs.kind = "exec" /\ obs.incls # "ok" /\ ~Cfg.first) =>
                          /\ obs.err /\ ~obs.ran /\ S.calls = <<>>
                          /\ NavProj(S) = NavProj(obs.pre) /\ S.flags = obs.pre.flags /\ CacheProj(S) = CacheProj(obs.pre)
                          /\ (S.code = obs.pre.code \/ (obs.pre.code = <<>> /\ S.code = RootCode))
(* ---- C20 *)
C20_GracefulEndUnwinds == (obs.kind = "flush" /\ obs.ended) =>
                             /\ S.path = <<>> /\ S.c.frames = <<EmptyF>> /\ S.c.used = 0 /\ S.code = <<>>
                             /\ TERMINATE \notin S.flags
\* the unwinding after the final output keeps the client flags as the request left them
C20_ClientFlagsKept == (obs.kind = "flush" /\ obs.ended) => {f \in S.flags : f >= 8} = obs.cf
C18_LangReaches == \A i \in DOMAIN S.looks : S.looks[i].want # "" => S.looks[i].lang = S.looks[i].want
C20_RestartAtRoot == (obs.kind = "exec" /\ obs.ran /\ obs.pre.path = <<>> /\ ~obs.err /\ Len(S.path) > 0) => S.path[1] = Root
=============================================================================
