------------------------------- MODULE Engine -------------------------------
(***************************************************************************)
(* The engine's request wrapper (engine/db.go) around the VM of Vise.tla:  *)
(* Exec (initialisation, entry-node injection, input validation, run,      *)
(* classification of the end of the run), Flush (render, exit value,       *)
(* unwinding after a graceful end), Finish/Save and Load (persisted mode). *)
(*                                                                         *)
(* e = [s, initd, execd, exiting, exit]                                    *)
(*   s        the session (Vise.tla)                                       *)
(*   initd    this engine object has initialised the session               *)
(*   execd    a run has completed since the last Exec began                *)
(*   exiting  the run ended gracefully; Flush must unwind                  *)
(*   exit     value appended to the final output (last loaded value)       *)
(*                                                                         *)
(* The persisted part of a session is exactly the exported fields of       *)
(* state.State and cache.Cache; everything else is volatile.               *)
(***************************************************************************)
EXTENDS Vise

(* Engine options (engine.Config.ResetOnEmptyInput, DefaultEngine.WithFirst):                                         *)
(*   cfg.rempty  an empty input restarts the session at the entry node (engine.Reset(force)) before it is handled      *)
(*   cfg.first   a pre-VM check function runs in the FIRST Exec of every engine object - i.e. in every request of       *)
(*               persisted operation - in a scratch scope: a pseudo node "_first" is pushed, the code                   *)
(*               LOAD _first 0 / HALT runs on a private VM whose resource knows nothing but that function, and the     *)
(*               scope is popped again; if it raised TERMINATE the request stops with the function's result as output. *)
(*   hold        what init sets aside while the check runs (pending code, page index, input)                           *)
NoCfg == [rempty |-> FALSE, first |-> FALSE]
NoHold == [code |-> <<>>, idx |-> 0, input |-> NoInput, depth |-> 0]
NewEngine(s) == [s |-> s, initd |-> FALSE, execd |-> FALSE, exiting |-> FALSE, exit |-> NoVal, cfg |-> NoCfg, hold |-> NoHold]
WithCfg(e, cfg) == [e EXCEPT !.cfg = cfg]

\* what survives Save/Load: navigation, index, flags, pending code, cache, language
Persisted(s) == [path |-> s.path, idx |-> s.idx, flags |-> s.flags, code |-> s.code, c |-> s.c, lang |-> s.lang]
\* a freshly loaded session: persisted part kept, volatile part (input, renderer registers, error prefix) fresh
Volatile(s) == [s EXCEPT !.input = NoInput, !.ctxlang = "", !.mapped = NoMapped, !.psink = "", !.errp = NoErr,
                         !.menu = <<>>, !.browse = NoBrowse, !.pcount = 0, !.msink = FALSE]
LoadEngine(s) == NewEngine(Volatile(s))

\* result of a request: [e, cont, err, ran]   (ran: the VM was entered for the application's code)
Q(e, cont, err, ran) == [e |-> e, cont |-> cont, err |-> err, ran |-> ran, panic |-> FALSE]

\* engine.reset after a graceful end: unwinds the whole path (UnwindToEmptyPath, code), clears TERMINATE and DIRTY,
\* keeps every other flag (so the client flags) and empties the cache
RECURSIVE Unwind(_)
Unwind(s) == IF Len(s.path) = 0 THEN s ELSE Unwind(SetC(UpNav(s), Pop(s.c)))
EngineReset(s) == [Unwind(s) EXCEPT !.flags = @ \ {TERMINATE, DIRTY}]
RECURSIVE UnwindTo(_, _)
UnwindTo(s, d) == IF Len(s.path) <= d THEN s ELSE UnwindTo(SetC(UpNav(s), Pop(s.c)), d)

(* incls: class of the client input -- "ok", "bad" (fails every accepted input format), "long" (> 255 bytes) *)
(* Everything before the VM is entered.  B = [e, stage, run, cont, err]                                       *)
(*   stage "run":   the VM must now run e.s (the application's pending code)                                  *)
(*   stage "first": the VM must now run e.s (the pre-VM check), then FirstEnd                                  *)
(*   stage "stop":  the request is over with (cont, err)                                                      *)
B(x, stage, cont, err) == [e |-> x, stage |-> stage, run |-> stage = "run", cont |-> cont, err |-> err]

(* Exec after init's pre-VM check: entry-node injection, restart on empty input, validation, input, code check *)
ExecMain(e1, input, incls) ==
  LET s0 == IF ~e1.initd /\ e1.s.code = <<>> THEN [e1.s EXCEPT !.code = RootCode] ELSE e1.s   \* entry-node injection
      e2 == [e1 EXCEPT !.s = s0, !.initd = TRUE]
      \* ResetOnEmptyInput: engine.Reset(force) - a no-op on a session that has no position yet
      s0r == IF e1.cfg.rempty /\ incls = "ok" /\ input = "" /\ Len(s0.path) > 0 THEN [EngineReset(s0) EXCEPT !.code = RootCode] ELSE s0 IN
  IF incls = "bad" THEN B(e2, "stop", TRUE, TRUE)                      \* C17: refused, session untouched
  ELSE IF incls = "long" THEN B(e2, "stop", FALSE, TRUE)
  ELSE LET s1 == [s0r EXCEPT !.input = In(input), !.ctxlang = s0r.lang] IN
       IF s1.code = <<>> THEN B([e2 EXCEPT !.s = s1], "stop", FALSE, TRUE)        \* "no code to execute"
       ELSE B([e2 EXCEPT !.s = s1], "run", TRUE, FALSE)

FirstCode == <<I("LOAD", "_first", "", 0, 0, "sym"), I("HALT", "", "", 0, 0, "")>>
\* Exec first discards output that is still pending (prepare -> empty -> Flush).  After an ordinary Flush that is a no-op; after a
\* graceful end whose final page failed to render, the unwinding that Flush deferred happens now: the render attempt has cleared
\* DIRTY, so nothing is shown, nothing fails, and the session is reset.
ExecBegin(e0, input, incls) ==
  LET e == IF e0.execd /\ e0.exiting THEN [e0 EXCEPT !.s = EngineReset(e0.s)] ELSE e0
      e1 == [e EXCEPT !.execd = FALSE, !.exiting = FALSE, !.exit = NoVal] IN
  \* first Exec on this engine object: SetInput in init refuses an over-long input before anything else happens
  IF ~e1.initd /\ incls = "long" THEN B(e1, "stop", FALSE, TRUE)
  \* (a blocked session stays blocked: the check is not run for it)
  ELSE IF ~e1.initd /\ e1.cfg.first /\ TERMINATE \notin e1.s.flags
  THEN LET s == e1.s
           s1 == [SetC([s EXCEPT !.path = Append(@, "_first"), !.idx = 0], Push(s.c))
                    EXCEPT !.code = FirstCode, !.input = In(input), !.ctxlang = s.lang] IN
       B([e1 EXCEPT !.s = s1, !.hold = [code |-> s.code, idx |-> s.idx, input |-> s.input, depth |-> Len(s.path)]], "first", TRUE, FALSE)
  ELSE ExecMain(e1, input, incls)

(* End of the pre-VM check r = [s, err, done, panic].  F = [b, q, over]: over = TRUE -> the request is over with q,     *)
(* otherwise b is what ExecMain says.                                                                                  *)
FirstEnd(e, r, input, incls) ==
  LET s2 == r.s
      \* the scratch scope is left - every level the check pushed (a failing function makes the private VM move on to _catch) -
      \* TERMINATE and DIRTY are cleared, the pending code is the session's again.  The page index is the one the session
      \* had: the check is not a move (C04).
      s3 == [UnwindTo(s2, e.hold.depth) EXCEPT !.idx = e.hold.idx, !.flags = @ \ {TERMINATE, DIRTY}, !.code = e.hold.code]
      e3 == [e EXCEPT !.s = s3, !.hold = NoHold]
      F(b, q, over) == [b |-> b, q |-> q, over |-> over]
      NoB == B(e3, "stop", FALSE, FALSE) IN
  IF r.panic THEN F(NoB, [Q(e3, FALSE, TRUE, FALSE) EXCEPT !.panic = TRUE], TRUE)
  ELSE IF r.err \/ s2.code # <<>> THEN F(NoB, Q(e3, FALSE, TRUE, FALSE), TRUE)
  ELSE IF TERMINATE \in s2.flags                                                   \* "Pre-VM check says not to continue"
       THEN LET lst == Last(s3.c) IN
            F(NoB, Q([e3 EXCEPT !.s = SetC(s3, lst), !.execd = TRUE, !.exit = lst.val], FALSE, FALSE, FALSE), TRUE)
  ELSE F(ExecMain([e3 EXCEPT !.s.input = e.hold.input], input, incls), Q(e3, TRUE, FALSE, FALSE), FALSE)

(* ExecEnd: classification of the end of the run r = [s, err, done, panic] *)
ExecEnd(e2, r) ==
  IF r.panic THEN [Q([e2 EXCEPT !.s = r.s], FALSE, TRUE, TRUE) EXCEPT !.panic = TRUE]
  ELSE IF r.err THEN Q([e2 EXCEPT !.s = [r.s EXCEPT !.code = <<>>]], FALSE, TRUE, TRUE)   \* CodeLostOnError (code)
  ELSE IF TERMINATE \in r.s.flags
       THEN Q([e2 EXCEPT !.s = [r.s EXCEPT !.code = <<>>], !.execd = TRUE], FALSE, FALSE, TRUE)
  ELSE IF r.s.code = <<>>
       THEN (IF DIRTY \in r.s.flags
             THEN LET lst == Last(r.s.c) IN           \* graceful end: final output + last loaded value
                  Q([e2 EXCEPT !.s = SetC(r.s, lst), !.execd = TRUE, !.exiting = TRUE, !.exit = lst.val], FALSE, FALSE, TRUE)
             ELSE Q([e2 EXCEPT !.s = r.s, !.execd = TRUE], FALSE, FALSE, TRUE))
  ELSE Q([e2 EXCEPT !.s = r.s, !.execd = TRUE], TRUE, FALSE, TRUE)

ExecStop(b) == Q(b.e, b.cont, b.err, FALSE)
ExecReq(e, input, incls) ==
  LET b0 == ExecBegin(e, input, incls) IN
  IF b0.stage = "first"
  THEN LET f == FirstEnd(b0.e, Run(b0.e.s), input, incls) IN
       IF f.over THEN f.q
       ELSE IF ~f.b.run THEN ExecStop(f.b) ELSE ExecEnd(f.b.e, Run(f.b.e.s))
  ELSE IF ~b0.run THEN ExecStop(b0) ELSE ExecEnd(b0.e, Run(b0.e.s))

(* Flush.  rendered: did the page render succeed (decided by Render.tla / logged in trace mode).        *)
(* Page = what is shown: node, index, error prefix class, mapped values (abstract page descriptor).      *)
NoPage == [node |-> "", idx |-> 0, errp |-> NoErr, mapped |-> NoMapped, menu |-> <<>>, exit |-> NoVal, shown |-> FALSE]
PageOf(s, exit) == [node |-> Top(s), idx |-> s.idx, errp |-> s.errp, mapped |-> s.mapped, menu |-> s.menu, exit |-> exit, shown |-> TRUE]
\* result [e, err, page]
FlushReq(e, rendered) ==
  IF ~e.execd THEN [e |-> e, err |-> TRUE, page |-> NoPage]                          \* flush before exec: refused, no effect
  ELSE LET dirty == DIRTY \in e.s.flags
           show == dirty /\ Len(e.s.path) > 0
           \* the error prefix belongs to one page: dropped by the render attempt, successful or not
           s1 == [e.s EXCEPT !.flags = @ \ {DIRTY}, !.errp = IF show THEN NoErr ELSE @]
           pg == IF show /\ rendered THEN PageOf(s1, e.exit)
                 ELSE IF e.exit # NoVal THEN [NoPage EXCEPT !.exit = e.exit, !.shown = TRUE] ELSE NoPage
           fail == show /\ ~rendered /\ e.exit = NoVal
           s2 == IF e.exiting /\ ~fail THEN EngineReset(s1) ELSE s1
       IN [e |-> [e EXCEPT !.s = s2, !.exiting = IF fail THEN @ ELSE FALSE], err |-> show /\ ~rendered, page |-> pg]
=============================================================================
