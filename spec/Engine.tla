------------------------------- MODULE Engine -------------------------------
(***************************************************************************)
(* The engine's request wrapper (engine/db.go) around the VM of Vise.tla:  *)
(* Exec (initialisation, entry-node injection, input validation, run,      *)
(* classification of the end of the run), Flush (render, exit value,       *)
(* unwinding after a graceful end), Finish/Save and Load (persisted mode). *)
(*                                                                         *)
(* e = [s, initd, execd, exiting, exit]                                    *)
(*   s        the session (Vise.tla)                                       *)
(*   initd    this engine object has initialised the session               *)
(*   execd    a run has completed since the last Exec began                *)
(*   exiting  the run ended gracefully; Flush must unwind                  *)
(*   exit     value appended to the final output (last loaded value)       *)
(*                                                                         *)
(* The persisted part of a session is exactly the exported fields of       *)
(* state.State and cache.Cache; everything else is volatile.               *)
(***************************************************************************)
EXTENDS Vise

NewEngine(s) == [s |-> s, initd |-> FALSE, execd |-> FALSE, exiting |-> FALSE, exit |-> NoVal]

\* what survives Save/Load: navigation, index, flags, pending code, cache, language
Persisted(s) == [path |-> s.path, idx |-> s.idx, flags |-> s.flags, code |-> s.code, c |-> s.c, lang |-> s.lang]
\* a freshly loaded session: persisted part kept, volatile part (input, renderer registers, error prefix) fresh
Volatile(s) == [s EXCEPT !.input = NoInput, !.ctxlang = "", !.mapped = NoMapped, !.psink = "", !.errp = NoErr,
                         !.menu = <<>>, !.browse = NoBrowse, !.pcount = 0, !.msink = FALSE]
LoadEngine(s) == NewEngine(Volatile(s))

\* result of a request: [e, cont, err, ran]   (ran: the VM was entered)
Q(e, cont, err, ran) == [e |-> e, cont |-> cont, err |-> err, ran |-> ran, panic |-> FALSE]

(* incls: class of the client input -- "ok", "bad" (fails every accepted input format), "long" (> 255 bytes) *)
(* ExecBegin: everything before the VM is entered.  B = [e, run, cont, err]; run = TRUE: the VM must now run e.s *)
ExecBegin(e, input, incls) ==
  LET e1 == [e EXCEPT !.execd = FALSE, !.exiting = FALSE, !.exit = NoVal]
      B(x, run, cont, err) == [e |-> x, run |-> run, cont |-> cont, err |-> err] IN
  \* first Exec on this engine object: SetInput in init refuses an over-long input before anything else happens
  IF ~e1.initd /\ incls = "long" THEN B(e1, FALSE, FALSE, TRUE)
  ELSE LET s0 == IF ~e1.initd /\ e1.s.code = <<>> THEN [e1.s EXCEPT !.code = RootCode] ELSE e1.s   \* entry-node injection
           e2 == [e1 EXCEPT !.s = s0, !.initd = TRUE] IN
       IF incls = "bad" THEN B(e2, FALSE, TRUE, TRUE)                   \* C17: refused, session untouched
       ELSE IF incls = "long" THEN B(e2, FALSE, FALSE, TRUE)
       ELSE LET s1 == [s0 EXCEPT !.input = In(input), !.ctxlang = s0.lang] IN
            IF s1.code = <<>> THEN B([e2 EXCEPT !.s = s1], FALSE, FALSE, TRUE)        \* "no code to execute"
            ELSE B([e2 EXCEPT !.s = s1], TRUE, TRUE, FALSE)

(* ExecEnd: classification of the end of the run r = [s, err, done, panic] *)
ExecEnd(e2, r) ==
  IF r.panic THEN [Q([e2 EXCEPT !.s = r.s], FALSE, TRUE, TRUE) EXCEPT !.panic = TRUE]
  ELSE IF r.err THEN Q([e2 EXCEPT !.s = [r.s EXCEPT !.code = <<>>]], FALSE, TRUE, TRUE)   \* CodeLostOnError (code)
  ELSE IF TERMINATE \in r.s.flags
       THEN Q([e2 EXCEPT !.s = [r.s EXCEPT !.code = <<>>], !.execd = TRUE], FALSE, FALSE, TRUE)
  ELSE IF r.s.code = <<>>
       THEN (IF DIRTY \in r.s.flags
             THEN LET lst == Last(r.s.c) IN           \* graceful end: final output + last loaded value
                  Q([e2 EXCEPT !.s = SetC(r.s, lst), !.execd = TRUE, !.exiting = TRUE, !.exit = lst.val], FALSE, FALSE, TRUE)
             ELSE Q([e2 EXCEPT !.s = r.s, !.execd = TRUE], FALSE, FALSE, TRUE))
  ELSE Q([e2 EXCEPT !.s = r.s, !.execd = TRUE], TRUE, FALSE, TRUE)

ExecReq(e, input, incls) ==
  LET b == ExecBegin(e, input, incls) IN
  IF ~b.run THEN Q(b.e, b.cont, b.err, FALSE) ELSE ExecEnd(b.e, Run(b.e.s))

\* engine.reset after a graceful end: unwinds the whole path (UnwindToEmptyPath, code), clears TERMINATE and DIRTY,
\* keeps every other flag (so the client flags) and empties the cache
RECURSIVE Unwind(_)
Unwind(s) == IF Len(s.path) = 0 THEN s ELSE Unwind(SetC(UpNav(s), Pop(s.c)))
EngineReset(s) == [Unwind(s) EXCEPT !.flags = @ \ {TERMINATE, DIRTY}]

(* Flush.  rendered: did the page render succeed (decided by Render.tla / logged in trace mode).        *)
(* Page = what is shown: node, index, error prefix class, mapped values (abstract page descriptor).      *)
NoPage == [node |-> "", idx |-> 0, errp |-> NoErr, mapped |-> NoMapped, menu |-> <<>>, exit |-> NoVal, shown |-> FALSE]
PageOf(s, exit) == [node |-> Top(s), idx |-> s.idx, errp |-> s.errp, mapped |-> s.mapped, menu |-> s.menu, exit |-> exit, shown |-> TRUE]
\* result [e, err, page]
FlushReq(e, rendered) ==
  IF ~e.execd THEN [e |-> e, err |-> TRUE, page |-> NoPage]                          \* flush before exec: refused, no effect
  ELSE LET dirty == DIRTY \in e.s.flags
           show == dirty /\ Len(e.s.path) > 0
           \* the error prefix belongs to one page: dropped by the render attempt, successful or not
           s1 == [e.s EXCEPT !.flags = @ \ {DIRTY}, !.errp = IF show THEN NoErr ELSE @]
           pg == IF show /\ rendered THEN PageOf(s1, e.exit)
                 ELSE IF e.exit # NoVal THEN [NoPage EXCEPT !.exit = e.exit, !.shown = TRUE] ELSE NoPage
           fail == show /\ ~rendered /\ e.exit = NoVal
           s2 == IF e.exiting /\ ~fail THEN EngineReset(s1) ELSE s1
       IN [e |-> [e EXCEPT !.s = s2, !.exiting = IF fail THEN @ ELSE FALSE], err |-> show /\ ~rendered, page |-> pg]
=============================================================================
