----------------------------- MODULE CacheTrace -----------------------------
(* Trace validation of cache.Cache against Cache.tla (property C09).         *)
(* line: [ev, first, o, ok, val, panic, pre, post]                           *)
EXTENDS Cache, TraceBase

FromKVV(q) == [k \in {q[i].k : i \in DOMAIN q} |->
                 LET i == CHOOSE j \in DOMAIN q : q[j].k = k IN V(q[i].id, q[i].len)]
FromKV(q) == [k \in {q[i].k : i \in DOMAIN q} |-> LET i == CHOOSE j \in DOMAIN q : q[j].k = k IN q[i].v]
FromLog(j) == [frames |-> [i \in 1..Len(j.frames) |-> FromKVV(j.frames[i])], sizes |-> FromKV(j.sizes),
               used |-> j.used, cap |-> j.cap, last |-> V(j.last.id, j.last.len)]

Pre == FromLog(Ev.pre)
Post == FromLog(Ev.post)

\* ---- the property, judged on every real operation
C09_NoPanic      == Have => Ev.panic = ""
C09_Consistent   == Have => (Consistent(Pre) => Consistent(Post))
C09_OverLimit    == Have => OverLimitRejected(Pre, Ev.o, Ev.ok)
C09_RejectedNoop == Have => RejectedIsNoop(Pre, Ev.o, Ev.ok, Post)
C09_PopReleases  == Have => PopReleasesExactly(Pre, Ev.o, Post)
C09_ReadsNoop    == Have => ReadsAreNoop(Pre, Ev.o, Post)
\* a value read back is the value stored
C09_GetReturnsStored == Have /\ Ev.o.op = "get" /\ Ev.ok => Ev.val = Get(Pre, Ev.o.k).val

\* ---- conformance with the step function (reported as model drift, never a verdict by itself)
Drift_Step == Have /\ Consistent(Pre) => LET r == Apply(Pre, Ev.o) IN
                       /\ r.ok = Ev.ok
                       /\ Obs(r.c) = Obs(Post)
                       /\ r.c.last = Post.last
                       /\ (Ev.o.op \in {"get", "last"} => r.val = V(Ev.val.id, Ev.val.len))

\* ---- hook soundness: consecutive events of one sequence connect
Continuity == (l > 2 /\ ~Ev.first) => FromLog(Trace[l - 2].post) = Pre
=============================================================================
