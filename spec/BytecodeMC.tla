----------------------------- MODULE BytecodeMC -----------------------------
(* Design-level check of the format: Dec(Enc(i) o rest) = <i, rest> for every *)
(* opcode over boundary argument domains, minimal widths, adjacency of the    *)
(* four integer width classes; emission of cases for the real codecs.         *)
EXTENDS Bytecode, Json
CONSTANTS SymLens, MaxProg

\* boundary integers as byte tuples: 0, 1, 255, 256, 65535, 65536, 2^24-1, 2^24, 2^32-1
Ints == {<<0,0,0,0>>, <<0,0,0,1>>, <<0,0,0,255>>, <<0,0,1,0>>, <<0,0,255,255>>, <<0,1,0,0>>, <<0,255,255,255>>, <<1,0,0,0>>,
         <<255,255,255,255>>, <<0,0,0,8>>, <<0,0,2,7>>}
SymOf(n, c) == [i \in 1..n |-> c]
Syms == {SymOf(n, 97) : n \in SymLens} \cup {<<95>>, <<62>>, <<42>>, <<102, 111, 111>>, <<48, 48>>}   \* also "_" ">" "*" "foo" "00"
Rests == {<<>>, <<0, 7>>, <<255>>}

Instrs == [op : {NOOP, HALT, MSINK}, a : {<<>>}, b : {<<>>}, n : {Zero4}, m : {0}]
          \cup [op : {RELOAD, MAP, MOVE}, a : Syms, b : {<<>>}, n : {Zero4}, m : {0}]
          \cup [op : {INCMP, MOUT, MNEXT, MPREV}, a : Syms, b : Syms, n : {Zero4}, m : {0}]
          \cup [op : {LOAD}, a : Syms, b : {<<>>}, n : Ints, m : {0}]
          \cup [op : {CATCH}, a : Syms, b : {<<>>}, n : Ints, m : {0, 1}]
          \cup [op : {CROAK}, a : {<<>>}, b : {<<>>}, n : Ints, m : {0, 1}]

VARIABLES prog
Init == prog = <<>>
Next == Len(prog) < MaxProg /\ \E i \in Instrs : prog' = Append(prog, i)
Spec == Init /\ [][Next]_prog

C14_RoundTrip == prog # <<>> => \A r \in Rests : RoundTrip(prog[Len(prog)], r)
C14_ProgramRoundTrip == prog # <<>> => DecAll(EncAll(prog)) = Acc(prog, <<>>)
C14_MinimalWidth == prog # <<>> => LET i == prog[Len(prog)] IN
                      Shape(i.op) \in {"symint", "symintmode", "intmode"} =>
                        (Width(i.n) = 4 - (IF i.n[1] # 0 THEN 0 ELSE IF i.n[2] # 0 THEN 1 ELSE IF i.n[3] # 0 THEN 2 ELSE 3))
\* width classes [lo, hi] -> w cover the 32-bit range without gap or overlap
Classes == << [lo |-> <<0,0,0,0>>, hi |-> <<0,0,0,255>>, w |-> 1], [lo |-> <<0,0,1,0>>, hi |-> <<0,0,255,255>>, w |-> 2],
              [lo |-> <<0,1,0,0>>, hi |-> <<0,255,255,255>>, w |-> 3], [lo |-> <<1,0,0,0>>, hi |-> <<255,255,255,255>>, w |-> 4] >>
Succ4(v) == IF v[4] < 255 THEN [v EXCEPT ![4] = @ + 1] ELSE IF v[3] < 255 THEN [v EXCEPT ![3] = @ + 1, ![4] = 0]
            ELSE IF v[2] < 255 THEN [v EXCEPT ![2] = @ + 1, ![3] = 0, ![4] = 0] ELSE [v EXCEPT ![1] = @ + 1, ![2] = 0, ![3] = 0, ![4] = 0]
C14_WidthClasses == /\ Classes[1].lo = Zero4 /\ Classes[4].hi = <<255,255,255,255>>
                    /\ \A k \in 1..3 : Succ4(Classes[k].hi) = Classes[k + 1].lo
                    /\ \A k \in 1..4 : Width(Classes[k].lo) = Classes[k].w /\ Width(Classes[k].hi) = Classes[k].w

Emit == PrintT(<<"MBT", ToJson([prog |-> prog', bytes |-> EncAll(prog')])>>)
=============================================================================
