------------------------------- MODULE Render -------------------------------
(***************************************************************************)
(* Sizing and pagination of go-vise pages (render/page.go prepare /        *)
(* joinSink / render, render/size.go GetAt / Check, render/menu.go         *)
(* applyPage / Sizes).                                                     *)
(*                                                                         *)
(* Part 1 transcribes the code's row-grouping ALGORITHM (rows are lengths, *)
(* a page is a sequence of row indices).  Part 2 is the CONTRACT of        *)
(* properties C01 / C02 over the family of pages of one configuration; it  *)
(* is evaluated both on the algorithm model (RenderMC) and on families of  *)
(* pages rendered by the real code (RenderTrace).                          *)
(*                                                                         *)
(* c = [size, tpl, menu, nextLen, prevLen, rows, msink]                     *)
(*   size     output size; tpl  static bytes (template text, non-sink       *)
(*   values, error prefix); menu  bytes of the ordinary menu (0 = none);    *)
(*   nextLen / prevLen  bytes of the browse entries (0 = not defined);      *)
(*   rows  sink row lengths; msink  the menu is the sink                    *)
(***************************************************************************)
EXTENDS Integers, Sequences, FiniteSets, TLC

Huge == 2000000000
\* uint32 subtraction: a wrapped result is modelled as a value larger than anything in the model
Sub32(a, b) == IF a >= b THEN a - b ELSE Huge - (b - a)

SumLen(rows, idxs) ==
  LET RECURSIVE S(_)
      S(k) == IF k = 0 THEN 0 ELSE rows[idxs[k]] + S(k-1)
  IN S(Len(idxs))

\* bytes of a page made of the given row indices (rows joined by one separator)
PageBytes(rows, idxs) == IF Len(idxs) = 0 THEN 0 ELSE SumLen(rows, idxs) + Len(idxs) - 1

\* cfg: [size, tpl (static bytes incl. everything but sink), menu (bytes of ordinary menu, 0 = none),
\*       nextLen, prevLen (bytes of the browse entries, 0 = not available), rows, msink (BOOLEAN)]

\* menuSizes[1], [2] as computed by Menu.Sizes (default separator, no items)
MS1(c) == c.nextLen
MS2(c) == c.prevLen

\* pre-render length: template with empty sink + "\n" + ordinary menu (if any).
\* With MSINK the ordinary menu moves into the sink and the template gains "\n".
PreLen(c) == IF c.msink THEN c.tpl + 1
             ELSE c.tpl + (IF c.menu > 0 THEN 1 + c.menu ELSE 0)

\* joinSink: returns [err, pages (seq of seq of row idx), cursors (seq of offsets), count, strlen]
\* state of the fold: l (running length incl. separators), tbRows (rows in builder), tbLen (builder byte length),
\* rbLen (flattened length so far), net (netRemaining), count, pages, crs, err
JoinSink(c, remaining) ==
  LET n == Len(c.rows)
      net0 == Sub32(remaining, 1)
      net1 == IF n > 1 THEN Sub32(net0, MS1(c) + 1) ELSE net0
      init == [l |-> 0, tbRows |-> <<>>, tbLen |-> 0, rbLen |-> 0, net |-> net1, count |-> 0,
               pages |-> <<>>, crs |-> <<0>>, err |-> FALSE]
      Step(s, i) ==
        IF s.err THEN s ELSE
        LET v  == c.rows[i]
            l1 == s.l + v
            brk == l1 > Sub32(s.net, 1)
        IN IF brk /\ s.tbLen = 0 THEN [s EXCEPT !.err = TRUE]
           ELSE
           LET s1 == IF brk
                     THEN [s EXCEPT !.rbLen = s.rbLen + s.tbLen + 1,
                                    !.crs = Append(s.crs, s.rbLen + s.tbLen + 1),
                                    !.pages = Append(s.pages, s.tbRows),
                                    !.tbRows = <<>>, !.tbLen = 0, !.l = v,
                                    !.net = IF s.count = 0 THEN Sub32(s.net, MS2(c) + 1) ELSE s.net,
                                    !.count = s.count + 1]
                     ELSE [s EXCEPT !.l = l1]
               \* separator only if builder non-empty (by BYTE length, as the code tests tb.Len())
               sep == IF s1.tbLen > 0 THEN 1 ELSE 0
           IN [s1 EXCEPT !.l = s1.l + sep, !.tbLen = s1.tbLen + sep + v,
                         \* a row is "in" the page iff the builder keeps it distinguishable:
                         \* an empty row written to an empty builder vanishes
                         !.tbRows = IF s1.tbLen = 0 /\ v = 0 THEN s1.tbRows ELSE Append(s1.tbRows, i)]
      RECURSIVE Fold(_, _)
      Fold(s, i) == IF i > n THEN s ELSE Fold(Step(s, i), i + 1)
      f == Fold(init, 1)
      \* after loop
      g == IF f.err THEN f
           ELSE IF f.tbLen > 0
                THEN [f EXCEPT !.rbLen = f.rbLen + f.tbLen, !.pages = Append(f.pages, f.tbRows), !.count = f.count + 1]
                ELSE f
      \* TrimRight "\n": if the last builder was empty and at least one break happened, rb ends with "\n"
      trimmed == IF ~g.err /\ g.tbLen = 0 /\ g.rbLen > 0 THEN g.rbLen - 1 ELSE g.rbLen
  IN [g EXCEPT !.rbLen = trimmed]

\* result of rendering page idx: [kind, len, rows, next, prev]
\* kind in {"ok","err","panic"}
Render(c, idx) ==
  LET pre == PreLen(c) IN
  IF pre > c.size THEN [kind |-> "err", why |-> "prelimit", len |-> 0, rows |-> <<>>, next |-> FALSE, prev |-> FALSE]
  ELSE
  LET remaining == c.size - pre
      j == JoinSink(c, remaining)
  IN IF j.err THEN [kind |-> "err", why |-> "capacity", len |-> 0, rows |-> <<>>, next |-> FALSE, prev |-> FALSE]
     ELSE IF idx + 1 > Len(j.crs) THEN [kind |-> "err", why |-> "nomore", len |-> 0, rows |-> <<>>, next |-> FALSE, prev |-> FALSE]
     \* Sizer.GetAt: a cursor beyond the (trimmed) content is "no more values" (was a slice panic before the repair)
     ELSE IF j.crs[idx+1] > j.rbLen THEN [kind |-> "err", why |-> "nomore", len |-> 0, rows |-> <<>>, next |-> FALSE, prev |-> FALSE]
     ELSE
       \* page content
       LET pcount == j.count
           pageRows == IF idx + 1 <= Len(j.pages) THEN j.pages[idx+1] ELSE <<>>
           body == PageBytes(c.rows, pageRows)
           tplLen == (IF c.msink THEN c.tpl + 1 ELSE c.tpl) + body
       IN IF pcount = 0 /\ idx > 0 THEN [kind |-> "err", why |-> "nonpaged", len |-> 0, rows |-> <<>>, next |-> FALSE, prev |-> FALSE]
          ELSE IF pcount > 0 /\ idx >= pcount THEN [kind |-> "err", why |-> "browse", len |-> 0, rows |-> <<>>, next |-> FALSE, prev |-> FALSE]
          ELSE
          LET canNext == pcount > 0 /\ c.nextLen > 0 /\ idx # pcount - 1
              canPrev == pcount > 0 /\ c.prevLen > 0 /\ idx # 0
              ordinary == IF c.msink THEN 0 ELSE c.menu
              nitems == (IF ordinary > 0 THEN 1 ELSE 0) + (IF canNext THEN 1 ELSE 0) + (IF canPrev THEN 1 ELSE 0)
              mlen == ordinary + (IF canNext THEN c.nextLen ELSE 0) + (IF canPrev THEN c.prevLen ELSE 0)
                      + (IF nitems > 1 THEN nitems - 1 ELSE 0)
              total == tplLen + (IF mlen > 0 THEN 1 + mlen ELSE 0)
          IN IF total > c.size THEN [kind |-> "err", why |-> "limit", len |-> total, rows |-> pageRows, next |-> canNext, prev |-> canPrev]
             ELSE [kind |-> "ok", why |-> "", len |-> total, rows |-> pageRows, next |-> canNext, prev |-> canPrev]


(***************************************************************************)
(* Part 2: the contract (C01, C02) over a family of pages                  *)
(*   P : 0..M -> [kind ("ok" | "err" | "panic"), len, next, prev, ...]     *)
(***************************************************************************)
Idx(P) == DOMAIN P
MaxI(P) == CHOOSE m \in Idx(P) : \A i \in Idx(P) : i <= m
OkSet(P) == {i \in Idx(P) : P[i].kind = "ok"}
\* index of the last page that rendered (-1 if none)
LastOk(P) == IF OkSet(P) = {} THEN -1 ELSE CHOOSE k \in OkSet(P) : \A j \in OkSet(P) : j <= k
\* the family must reach past the end for the clauses about the end to be decided
Complete(P) == LastOk(P) < MaxI(P)

Fits(size, P) == \A i \in Idx(P) : P[i].kind = "ok" => P[i].len <= size
NoPanic(P) == \A i \in Idx(P) : P[i].kind # "panic"
\* asking past the end is reported as an error: never a crash (content past the end is caught by Partition)
PastEndIsError(P) == \A i \in Idx(P) : i > LastOk(P) => P[i].kind = "err"
\* each offered entry leads to a page that renders
OfferedRenders(P) == \A i \in Idx(P) : (P[i].kind = "ok" /\ i < MaxI(P)) =>
                        /\ (P[i].next => P[i + 1].kind = "ok")
                        /\ (P[i].prev => i > 0 /\ P[i - 1].kind = "ok")
\* next on every page but the last, previous on every page but the first (when the entries are defined)
NavOffered(P, haveNext, havePrev) ==
  Complete(P) => \A i \in OkSet(P) : /\ (haveNext => (P[i].next <=> i < LastOk(P)))
                                     /\ (havePrev => (P[i].prev <=> i > 0))
\* every row exactly once and in order: the concatenation of the row lists of the pages that render, in page order,
\* is the original list (a page that fails loses its rows; a page past the end answered with content adds some)
RECURSIVE FlatTo(_, _)
FlatTo(P, k) == IF k < 0 THEN <<>> ELSE FlatTo(P, k - 1) \o (IF P[k].kind = "ok" THEN P[k].rows ELSE <<>>)
Partition(P, all) == (P[0].kind = "ok" /\ Complete(P)) => FlatTo(P, MaxI(P)) = all
=============================================================================
