----------------------------- MODULE FsSaveConc -----------------------------
(***************************************************************************)
(* Two sessions saved AT THE SAME TIME into one filesystem data directory  *)
(* (C19, C11): the primitive file operations of each save are not assumed  *)
(* but recorded from the real code with strace (one process, session A     *)
(* then session B, each through its own store handle); the model runs the  *)
(* two recorded sequences as two processes and TLC explores every          *)
(* interleaving, over a directory with names, inodes and per-process open  *)
(* files (a name opened by both processes is ONE file).                    *)
(*   names : name -> inode (0 = absent)                                    *)
(*   ino   : inode -> [w : set of writers, n : bytes]   (content summary)  *)
(*   h     : process -> name -> inode it holds open                        *)
(* op = [op, f, g, n] as in FsSave.tla.                                    *)
(***************************************************************************)
EXTENDS Integers, Sequences, FiniteSets, TLC, Json, IOUtils
Rec == JsonDeserialize(IOEnv.VERIF_OPS)
Procs == {"A", "B"}
Ops == [p \in Procs |-> IF p = "A" THEN Rec.a ELSE Rec.b]
Total == [p \in Procs |-> IF p = "A" THEN Rec.totala ELSE Rec.totalb]
Record == [p \in Procs |-> IF p = "A" THEN "SA" ELSE "SB"]
Names == {"SA", "SB"} \cup {Rec.a[i].f : i \in DOMAIN Rec.a} \cup {Rec.a[i].g : i \in DOMAIN Rec.a}
                      \cup {Rec.b[i].f : i \in DOMAIN Rec.b} \cup {Rec.b[i].g : i \in DOMAIN Rec.b}
MaxIno == 2 + Len(Rec.a) + Len(Rec.b)

VARIABLES names, ino, h, pc, failed, nextino
vars == <<names, ino, h, pc, failed, nextino>>
Old(p) == [w |-> {p}, n |-> 0 - 1]                 \* the complete previous record of p
Init == /\ names = [x \in Names |-> IF x = "SA" THEN 1 ELSE IF x = "SB" THEN 2 ELSE 0]
        /\ ino = [i \in 1..MaxIno |-> IF i = 1 THEN Old("A") ELSE IF i = 2 THEN Old("B") ELSE [w |-> {}, n |-> 0]]
        /\ h = [p \in Procs |-> [x \in Names |-> 0]]
        /\ pc = [p \in Procs |-> 1] /\ failed = {} /\ nextino = 3

Empty == [w |-> {}, n |-> 0]
Exec(p, o) ==
  CASE o.op = "create" ->            \* O_CREAT|O_EXCL style temp file: a new file; fails if the name exists
         IF names[o.f] # 0
         THEN /\ failed' = failed \cup {p} /\ UNCHANGED <<names, ino, h, nextino>>
         ELSE /\ names' = [names EXCEPT ![o.f] = nextino] /\ ino' = [ino EXCEPT ![nextino] = Empty]
              /\ h' = [h EXCEPT ![p][o.f] = nextino] /\ nextino' = nextino + 1 /\ UNCHANGED failed
    [] o.op = "opentrunc" ->         \* O_CREAT|O_TRUNC: the existing file (emptied) or a new one
         IF names[o.f] # 0
         THEN /\ ino' = [ino EXCEPT ![names[o.f]] = Empty] /\ h' = [h EXCEPT ![p][o.f] = names[o.f]]
              /\ UNCHANGED <<names, nextino, failed>>
         ELSE /\ names' = [names EXCEPT ![o.f] = nextino] /\ ino' = [ino EXCEPT ![nextino] = Empty]
              /\ h' = [h EXCEPT ![p][o.f] = nextino] /\ nextino' = nextino + 1 /\ UNCHANGED failed
    [] o.op = "write" ->
         LET i == h[p][o.f] IN
         IF i = 0 THEN failed' = failed \cup {p} /\ UNCHANGED <<names, ino, h, nextino>>
         ELSE /\ ino' = [ino EXCEPT ![i] = [w |-> @.w \cup {p}, n |-> @.n + o.n]] /\ UNCHANGED <<names, h, nextino, failed>>
    [] o.op = "rename" ->
         IF names[o.f] = 0 THEN failed' = failed \cup {p} /\ UNCHANGED <<names, ino, h, nextino>>
         ELSE names' = [names EXCEPT ![o.g] = names[o.f], ![o.f] = 0] /\ UNCHANGED <<ino, h, nextino, failed>>
    [] o.op = "unlink" -> names' = [names EXCEPT ![o.f] = 0] /\ UNCHANGED <<ino, h, nextino, failed>>
    [] OTHER -> UNCHANGED <<names, ino, h, nextino, failed>>

Step(p) == pc[p] <= Len(Ops[p]) /\ Exec(p, Ops[p][pc[p]]) /\ pc' = [pc EXCEPT ![p] = @ + 1]
Next == \E p \in Procs : Step(p)
Spec == Init /\ [][Next]_vars

Done == \A p \in Procs : pc[p] > Len(Ops[p])
Good(p) == names[Record[p]] # 0 /\ ino[names[Record[p]]] = [w |-> {p}, n |-> Total[p]]
\* whatever the interleaving, both saves succeed and each session's record is that session's complete new state
C19_SavesIndependent == Done => failed = {} /\ \A p \in Procs : Good(p)
\* at no moment does a session's record hold bytes written by the other session
C19_NoForeignBytes == \A p \in Procs : names[Record[p]] # 0 => ino[names[Record[p]]].w \subseteq {p}
=============================================================================
