---------------------------- MODULE BytecodeTrace ----------------------------
(* C14 / C15 judged on the real encoders and decoders.                        *)
(* "enc" lines: an instruction list encoded by vm.NewLine and by the          *)
(* assembler, decoded by vm.Parse*, listed by ParseHandler.ToString.          *)
(* "dec" lines: an arbitrary byte string given to ParseAll, ToString, Vm.Run. *)
EXTENDS Bytecode, TraceBase

IsEnc == Have /\ Ev.ev = "enc"
IsDec == Have /\ Ev.ev = "dec"

\* ---- C14
C14_NewLineEncodes == IsEnc => Ev.nl = EncAll(Ev.prog)
C14_AsmAgrees      == IsEnc /\ Ev.haveasm => ~Ev.asmerr /\ Ev.asm = EncAll(Ev.prog)
C14_DecodesBack    == IsEnc => Ev.decpanic = "" /\ Ev.decok /\ Ev.dec = Ev.prog
C14_ConsumesOwn    == IsEnc /\ Ev.decok => Ev.consumed = [k \in DOMAIN Ev.prog |-> Len(Enc(Ev.prog[k]))]
C14_Listing        == IsEnc => Ev.listok /\ Ev.list = Listing(Ev.prog)

\* ---- C15
WF == WellFormedProgram(Ev.bytes)
C15_NoPanic      == IsDec => Ev.parseall # "panic" /\ Ev.tostring # "panic" /\ Ev.run # "panic"
C15_NoSilentAccept == IsDec => ((Ev.parseall = "ok" => WF) /\ (Ev.tostring = "ok" => WF))
C15_AcceptsValid == IsDec /\ WF => Ev.parseall = "ok" /\ Ev.tostring = "ok"
\* the VM refuses to start on a malformed first instruction (NOOP is not executable: named deviation)
C15_RunRejects   == IsDec /\ Ev.run \notin {"panic", "skipped", "flagrange"} /\ (~DecInstr(Ev.bytes).ok \/ DecInstr(Ev.bytes).v.op = NOOP) => Ev.run = "err"
\* ... and never reports success having stood before a malformed instruction: every pending buffer the run loop was about
\* to decode (logged at each instruction boundary, with the code fetched by earlier instructions) starts with a
\* well-formed executable instruction, or the run ended in an error
C15_RunDecodes == IsDec /\ Ev.run = "ok" => \A i \in DOMAIN Ev.tops : Ev.tops[i] = <<>> \/ (DecInstr(Ev.tops[i]).ok /\ DecInstr(Ev.tops[i]).v.op # NOOP)
=============================================================================
