SPECIFICATION TraceSpec
INVARIANTS C09_NoPanic C09_Consistent C09_OverLimit C09_RejectedNoop C09_PopReleases C09_ReadsNoop C09_GetReturnsStored Continuity
CHECK_DEADLOCK FALSE
