SPECIFICATION Spec
CONSTANTS
  UseLog = FALSE
  Prog <- MCProg
  Syms <- MCSyms
  Root = "root"
  MaxLevel = 128
  Mode = "L"
  MaxReq = 4
  Cap = 0
  NFlags = 10
INVARIANTS C03_AtMostOneInputMove C03_FirstMatchWins C03_NoMatchGoesToCatch C04_PositionWellFormed C08_Consistent C08_NoPanic C05_ScopeLifetime C05_LimitsHold C05_MappedVisible C06_TerminateBlocks C17_RejectNoEffect C20_GracefulEndUnwinds C20_RestartAtRoot
VIEW View
CHECK_DEADLOCK FALSE
