----------------------------- MODULE RenderTrace -----------------------------
(* The contract of C01 / C02 evaluated on families of pages rendered by the   *)
(* real render.Page (one "render" line per configuration: every page index    *)
(* from 0 to beyond the end), and conformance of the real grouping with the   *)
(* algorithm transcription of Render.tla (drift; also what identifies the     *)
(* known algorithmic findings).                                               *)
EXTENDS Render, TraceBase

IsR == Have /\ Ev.ev = "render"
N == Len(Ev.pages)
P == [i \in 0..(N - 1) |-> Ev.pages[i + 1]]
C == [size |-> Ev.cfg.size, tpl |-> Ev.cfg.tpl, menu |-> Ev.cfg.menu, nextLen |-> Ev.cfg.nextLen, prevLen |-> Ev.cfg.prevLen,
      rows |-> Ev.cfg.rows, msink |-> Ev.cfg.msink]

C01_Fits == IsR => Fits(Ev.cfg.size, P)
C01_NoSilentTruncation == IsR => \A i \in 0..(N - 1) : P[i].kind = "ok" => \A k \in DOMAIN P[i].rows : \E r \in DOMAIN Ev.rows : P[i].rows[k] = Ev.rows[r]
C02_NoPanic == IsR => NoPanic(P)
C02_PastEndIsError == IsR => PastEndIsError(P)
C02_OfferedRenders == IsR => OfferedRenders(P)
C02_NavOffered == IsR => NavOffered(P, Ev.cfg.nextLen > 0, Ev.cfg.prevLen > 0)
C02_Partition == IsR => Partition(P, Ev.rows)
\* content that fits on ONE page together with the static part and the ordinary menu needs no browse entry: page 0 shows it
\* (whether it is split all the same is the renderer's business; that it is shown is not)
C02_FitsThenShown == IsR /\ Ev.onepage <= Ev.cfg.size => P[0].kind = "ok"
C02_StaticEverywhere == IsR => \A i \in 0..(N - 1) : P[i].kind = "ok" => P[i].staticok

\* the real renderer groups rows exactly as the transcription of the algorithm does
M == [i \in 0..(N - 1) |-> Render(C, i)]

(* "walk" lines: a client walking a node's pages through the real engine with the next selector (one long-lived engine, or   *)
(* a fresh engine per request), also on a second visit after another node with a different sink was shown.  The walk ends at   *)
(* the first page that offers no next entry (or at a failing request).                                                           *)
IsW == Have /\ Ev.ev = "walk"
WComplete == Ev.ended = "nonext"
WFlat == FlatTo(P, N - 1)
C01_WalkFits == IsW => Fits(Ev.cfg.size, P)
\* every offered next leads to a page that renders (a first page that cannot be rendered at all is an error, not a violation)
C02_WalkNoFail == IsW => Ev.ended # "stuck" /\ \A i \in 1..(N - 1) : P[i].kind = "ok"
C02_WalkPartition == IsW /\ WComplete => WFlat = Ev.rows
C02_WalkStatic == IsW => \A i \in 0..(N - 1) : P[i].kind = "ok" => P[i].staticok
C02_WalkNav == IsW /\ WComplete => \A i \in 0..(N - 1) : (P[i].next <=> i < N - 1) /\ (P[i].prev <=> i > 0)
\* the pages of the walk are the pages the algorithm transcription produces (what identifies the known renderer findings)
Drift_Walk == IsW => \A i \in 0..(N - 1) : /\ M[i].kind = P[i].kind
                                           /\ (P[i].kind = "ok" => M[i].len = P[i].len /\ M[i].next = P[i].next /\ M[i].prev = P[i].prev)

Drift_Algo == IsR => \A i \in 0..(N - 1) :
                 /\ M[i].kind = P[i].kind
                 /\ (P[i].kind = "ok" => /\ M[i].len = P[i].len /\ M[i].next = P[i].next /\ M[i].prev = P[i].prev
                                         /\ [k \in DOMAIN M[i].rows |-> Ev.rows[M[i].rows[k]]] = P[i].rows
                                            \/ (M[i].rows = <<>> /\ P[i].rows = <<"">>))
=============================================================================
