-------------------------------- MODULE Vise --------------------------------
(***************************************************************************)
(* Interpreter specification of one go-vise session: the VM run loop       *)
(* (vm/runner.go), the twelve opcodes, target resolution (vm/input.go),    *)
(* navigation and flags (state/state.go), the scoped symbol cache          *)
(* (Cache.tla), the renderer registers the VM touches, and the engine's    *)
(* request wrapper (engine/db.go).                                         *)
(*                                                                         *)
(* Everything is a pure function over a session record `s`; the TLA+       *)
(* actions (ViseMC) and the trace acceptors (ViseTrace) are derived from   *)
(* the same functions.  Where a listed property fixes the behaviour the    *)
(* function follows the property; where the properties are silent it       *)
(* follows the code and the deviation is named in a comment.               *)
(*                                                                         *)
(* External world.  The session talks to a resource (code, external        *)
(* functions).  In model-checking mode (UseLog = FALSE) the answers come   *)
(* from the constants Prog / Syms and the per-request choice s.pick; in    *)
(* trace mode (UseLog = TRUE) they are the logged answers in s.ext, and    *)
(* the function checks that the real code asked the expected question.     *)
(***************************************************************************)
EXTENDS Cache

CONSTANTS UseLog,    \* TRUE: resource answers are read from the logged queue s.ext
          Prog,      \* node name -> Seq(instr)                      (model-checking mode)
          Syms,      \* symbol -> Seq(result record)                 (model-checking mode)
          Root,      \* entry node
          MaxLevel   \* state.MaxLevel

READIN == 0  INMATCH == 1  WAIT == 2  LOADFAIL == 3  DIRTY == 4  RESERVED == 5  TERMINATE == 6  LANG == 7
Writeable(f) == f > RESERVED          \* state.IsWriteableFlag: client flags (8..), TERMINATE and LANG

ToSetSeq(q) == {q[i] : i \in DOMAIN q}
I(op, a, b, n, m, ac) == [op |-> op, a |-> a, b |-> b, n |-> n, m |-> m, ac |-> ac]
CatchCode == <<I("MOVE", "_catch", "", 0, 0, "sym")>>
RootCode  == <<I("MOVE", Root, "", 0, 0, "sym")>>

NoInput == [set |-> FALSE, v |-> ""]
In(v) == [set |-> TRUE, v |-> v]
NoErr == [cls |-> "", arg |-> ""]
NoBrowse == [na |-> FALSE, ns |-> "", nt |-> "", pa |-> FALSE, ps |-> "", pt |-> ""]
NoMapped == [k \in {} |-> NoVal]

NewSession(cap, nflags) ==
  [path |-> <<>>, idx |-> 0, flags |-> {}, code |-> <<>>, c |-> New(cap), nflags |-> nflags, maxlevel |-> MaxLevel,
   input |-> NoInput, lang |-> "", ctxlang |-> "",
   mapped |-> NoMapped, psink |-> "", errp |-> NoErr,
   menu |-> <<>>, browse |-> NoBrowse, pcount |-> 0, msink |-> FALSE,
   ext |-> <<>>, pick |-> <<>>, calls |-> <<>>, looks |-> <<>>, bad |-> "", langbad |-> FALSE, force |-> ""]

Top(s) == IF Len(s.path) = 0 THEN "" ELSE s.path[Len(s.path)]
SetC(s, r) == [s EXCEPT !.c = r.c]
\* `bad` records why the logged resource interaction does not fit the step (trace mode only)
Bad(s, why) == IF s.bad = "" THEN [s EXCEPT !.bad = why] ELSE s

(***************************************************************************)
(* Resource answers                                                        *)
(***************************************************************************)
NoAns == [kind |-> "none", sym |-> "", ok |-> FALSE, code |-> <<>>, len |-> 0, id |-> "", set |-> <<>>, reset |-> <<>>,
          lang |-> "", ctxlang |-> ""]
\* consult the resource: returns [s, a]
\* While the engine's pre-VM check runs (pseudo node "_first" on the path) the VM talks to a private resource that knows
\* nothing but that function: every node has empty code (no error), no other function exists.  The application's
\* resource - the one that is modelled / logged - is not consulted for these.
InFirst(s) == \E i \in DOMAIN s.path : s.path[i] = "_first"
Ask(s, kind, sym) ==
  IF InFirst(s) /\ kind = "code" THEN [s |-> s, a |-> [NoAns EXCEPT !.kind = "code", !.sym = sym, !.ok = TRUE]]
  ELSE IF InFirst(s) /\ kind = "funcfor" THEN [s |-> s, a |-> [NoAns EXCEPT !.kind = "funcfor", !.sym = sym, !.ok = (sym = "_first")]]
  ELSE IF UseLog
  THEN IF s.ext = <<>> THEN [s |-> Bad(s, "missing " \o kind), a |-> NoAns]
       ELSE LET a == Head(s.ext)
                s1 == [s EXCEPT !.ext = Tail(@)] IN
            IF a.kind # kind \/ a.sym # sym THEN [s |-> Bad(s1, "unexpected " \o a.kind), a |-> NoAns]
            \* C18: the lookup must have been made in the session's context language
            ELSE [s |-> IF a.ctxlang # s.ctxlang THEN [s1 EXCEPT !.langbad = TRUE] ELSE s1, a |-> a]
  ELSE CASE kind = "code" ->
              [s |-> s, a |-> IF sym \in DOMAIN Prog THEN [NoAns EXCEPT !.kind = "code", !.sym = sym, !.ok = TRUE, !.code = Prog[sym]]
                              ELSE [NoAns EXCEPT !.kind = "code", !.sym = sym]]
         [] kind = "funcfor" ->
              [s |-> s, a |-> [NoAns EXCEPT !.kind = "funcfor", !.sym = sym, !.ok = sym \in DOMAIN Syms]]
         [] kind = "func" ->
              LET alts == Syms[sym]
                  i == IF sym \in DOMAIN s.pick THEN s.pick[sym] ELSE 1
                  d == alts[IF i <= Len(alts) THEN i ELSE 1] IN
              [s |-> s, a |-> [NoAns EXCEPT !.kind = "func", !.sym = sym, !.ok = ~d.err, !.len = d.len, !.id = d.id,
                                            !.set = d.set, !.reset = d.reset, !.lang = d.lang]]
Look(s, kind, sym) == IF UseLog THEN s
                      ELSE [s EXCEPT !.looks = Append(@, [kind |-> kind, sym |-> sym, lang |-> s.ctxlang, want |-> s.lang])]

(***************************************************************************)
(* Navigation (C04).  R = [s, err, idxerr, panic]                          *)
(***************************************************************************)
R(s, e, x) == [s |-> s, err |-> e, idxerr |-> x, panic |-> FALSE]
UpNav(s) == [s EXCEPT !.path = SubSeq(@, 1, Len(@) - 1), !.idx = 0]
RECURSIVE Rewind(_)
Rewind(s) == IF Len(s.path) <= 1 THEN s ELSE Rewind(SetC(UpNav(s), Pop(s.c)))

(* ac = class of the target string: "sym" (valid node name or _catch),      *)
(* "_" ">" "<" "^" "." (control), "bad" (neither).                          *)
ApplyTarget(s, t, ac) ==
  CASE ac = "bad" -> R(s, TRUE, FALSE)
    [] ac = "_" -> IF Len(s.path) = 0 THEN R(s, TRUE, FALSE)
                   \* UpAtEntryEmptiesPath (code): popping the entry node succeeds here and the request
                   \* then fails on the code lookup for "" -- "fails at the entry node" of C04
                   ELSE R(SetC(UpNav(s), Pop(s.c)), FALSE, FALSE)
    [] ac = ">" -> IF Len(s.path) = 0 THEN R(s, TRUE, FALSE) ELSE R([s EXCEPT !.idx = @ + 1], FALSE, FALSE)
    [] ac = "<" -> IF Len(s.path) = 0 THEN R(s, TRUE, FALSE)
                   ELSE IF s.idx = 0 THEN R(s, TRUE, TRUE) ELSE R([s EXCEPT !.idx = @ - 1], FALSE, FALSE)
    [] ac = "^" -> R(Rewind(s), FALSE, FALSE)    \* RewindAtTopKeepsIndex, RewindOnEmptyPathIsSilent (code)
    [] ac = "." -> R(s, FALSE, FALSE)
    [] OTHER    -> \* descend
                   IF Len(s.path) > 0 /\ Top(s) = t THEN R(s, TRUE, FALSE)          \* already there: an error
                   ELSE IF Len(s.path) > s.maxlevel THEN R(s, TRUE, FALSE)           \* max levels exceeded: an error (C08)
                   ELSE R(SetC([s EXCEPT !.path = Append(@, t), !.idx = 0], Push(s.c)), FALSE, FALSE)

\* vm.Reset(): fresh menu (no items, no browse config, no page count, not a sink), page mappings and sink dropped
ResetRender(s) == [s EXCEPT !.mapped = NoMapped, !.psink = "", !.menu = <<>>, !.browse = NoBrowse, !.pcount = 0, !.msink = FALSE]
\* pg.Reset() + mn.Reset() after a HALT: items, browse entries and sink flag dropped (they belong to the screen that was
\* shown; a long-lived Menu object must not remember more than a freshly built one knows), page count kept
ResetAfterWait(s) == [s EXCEPT !.mapped = NoMapped, !.psink = "", !.menu = <<>>, !.browse = NoBrowse, !.msink = FALSE]

\* move to target t and fetch the code of the node that is on top afterwards.  X = [s, err, halt, idxerr, panic]
X(s, e, h) == [s |-> s, err |-> e, halt |-> h, idxerr |-> FALSE, panic |-> FALSE]
MoveTo(s, t, ac, replace, resetBefore, resetAfter) ==
  LET r == ApplyTarget(s, t, ac) IN
  IF r.panic THEN [X(r.s, TRUE, FALSE) EXCEPT !.panic = TRUE]
  ELSE IF r.err THEN [X(r.s, TRUE, FALSE) EXCEPT !.idxerr = r.idxerr]
  ELSE LET s1 == IF resetBefore THEN ResetRender(r.s) ELSE r.s
           q == Ask(Look(s1, "code", Top(s1)), "code", Top(s1)) IN
       IF ~q.a.ok THEN X(q.s, TRUE, FALSE)
       ELSE LET s2 == [q.s EXCEPT !.code = IF replace THEN q.a.code ELSE @ \o q.a.code] IN
            X(IF resetAfter THEN ResetRender(s2) ELSE s2, FALSE, FALSE)

(***************************************************************************)
(* External functions (C05, C06, C18).  Call = [s, err, v]                 *)
(***************************************************************************)
ApplyFlags(flags, set, reset) ==
  (flags \ {f \in ToSetSeq(reset) : Writeable(f)}) \cup {f \in ToSetSeq(set) : Writeable(f)}
Call(s, sym) ==
  LET q0 == Ask(Look(s, "funcfor", sym), "funcfor", sym) IN
  IF ~q0.a.ok THEN [s |-> q0.s, err |-> TRUE, v |-> NoVal]                     \* unknown function: plain error
  ELSE LET q == Ask(q0.s, "func", sym)
           s0 == [q.s EXCEPT !.calls = Append(@, sym)] IN
       IF ~q.a.ok THEN [s |-> [s0 EXCEPT !.flags = @ \cup {LOADFAIL}], err |-> TRUE, v |-> NoVal]
       ELSE LET fl == ApplyFlags(s0.flags, q.a.set, q.a.reset)
                \* C18: with LANG raised, a valid code selects the language, an unknown one leaves it.
                \* EmptyLangContentClearsLanguage (code): empty content clears it.
                lg == IF LANG \in fl
                      THEN (IF q.a.len = 0 THEN "" ELSE IF q.a.lang = "BAD" THEN s0.lang ELSE q.a.lang)
                      ELSE s0.lang
            IN [s |-> [s0 EXCEPT !.flags = fl, !.lang = lg], err |-> FALSE, v |-> V(q.a.id, q.a.len)]

\* pg.Map: value as it is now; a zero-limit symbol becomes the page sink (only one allowed)
MapSym(s, sym) ==
  LET g == Get(s.c, sym) IN
  IF ~g.ok THEN [s |-> s, err |-> TRUE]
  ELSE IF LimitOf(s.c, sym) = 0 /\ s.psink # "" /\ s.psink # sym THEN [s |-> s, err |-> TRUE]
  ELSE [s |-> [s EXCEPT !.mapped = PutF(@, sym, g.val),
                        !.psink = IF LimitOf(s.c, sym) = 0 THEN sym ELSE @], err |-> FALSE]

\* s.force ("" | "take" | "skip") overrides the condition of a conditional move; it is "" everywhere except in the
\* trace module, which uses it to ask "what if this INCMP / CATCH had (not) been taken" when judging properties that
\* are about the effect of a move rather than about the decision to move.
SigTest(s, sig, mode) == IF s.force = "take" THEN TRUE ELSE IF s.force = "skip" THEN FALSE ELSE (sig \in s.flags) = (mode = 1)
SigInRange(s, sig) == sig < s.nflags

(***************************************************************************)
(* One instruction                                                         *)
(***************************************************************************)
ExecInstr(ins, s) ==
  CASE ins.op = "HALT"  -> X([s EXCEPT !.flags = @ \cup {WAIT}], FALSE, TRUE)
    [] ins.op = "MSINK" -> X([s EXCEPT !.msink = TRUE, !.pcount = IF @ = 0 THEN 1 ELSE @], FALSE, FALSE)
    [] ins.op = "MOUT"  -> X([s EXCEPT !.menu = Append(@, [sel |-> ins.b, title |-> ins.a])], FALSE, FALSE)
    [] ins.op = "MNEXT" -> X([s EXCEPT !.browse = [@ EXCEPT !.na = TRUE, !.ns = ins.b, !.nt = ins.a]], FALSE, FALSE)
    [] ins.op = "MPREV" -> X([s EXCEPT !.browse = [@ EXCEPT !.pa = TRUE, !.ps = ins.b, !.pt = ins.a]], FALSE, FALSE)
    [] ins.op = "CATCH" ->
         IF ~SigInRange(s, ins.n) THEN [X(s, TRUE, FALSE) EXCEPT !.panic = TRUE]
         ELSE IF SigTest(s, ins.n, ins.m)
         THEN MoveTo(s, ins.a, ins.ac, TRUE, FALSE, FALSE)      \* replaces the pending code; renderer not reset (code)
         ELSE X(s, FALSE, FALSE)
    [] ins.op = "CROAK" ->
         IF ~SigInRange(s, ins.n) THEN [X(s, TRUE, FALSE) EXCEPT !.panic = TRUE]
         ELSE IF SigTest(s, ins.n, ins.m)
         \* CroakKeepsPath (code): cache scopes are dropped, the navigation path is not
         THEN X([ResetRender(SetC(s, Reset(s.c))) EXCEPT !.code = <<>>], FALSE, FALSE)
         ELSE X(s, FALSE, FALSE)
    [] ins.op = "LOAD" ->
         IF Visible(s.c, ins.a) THEN X(s, FALSE, FALSE)                \* at most once while visible
         ELSE LET c == Call(s, ins.a) IN
              IF c.err THEN X(c.s, TRUE, FALSE)
              ELSE LET r == Add(c.s.c, ins.a, c.v, ins.n % 65536) IN   \* LOAD size is a 16 bit quantity in the VM
                   IF ~r.ok THEN X(c.s, TRUE, FALSE) ELSE X(SetC(c.s, r), FALSE, FALSE)
    [] ins.op = "RELOAD" ->
         LET c == Call(s, ins.a) IN
         IF c.err THEN X(c.s, TRUE, FALSE)
         ELSE LET r == Update(c.s.c, ins.a, c.v)                      \* ReloadIgnoresRefusal (code): a refused update keeps the old value
                  m == MapSym(SetC(c.s, r), ins.a) IN
              X(m.s, m.err, FALSE)
    [] ins.op = "MAP" -> LET m == MapSym(s, ins.a) IN X(m.s, m.err, FALSE)
    [] ins.op = "MOVE" -> MoveTo(s, ins.a, ins.ac, FALSE, FALSE, TRUE)
    [] ins.op = "INCMP" ->
         (* C03: once an INCMP has matched since the last HALT, every further INCMP is ignored. *)
         IF s.force # "take" /\ (INMATCH \in s.flags \/ s.force = "skip") THEN X(s, FALSE, FALSE)
         ELSE LET s1 == [s EXCEPT !.flags = @ \cup {READIN}] IN
              IF ~s1.input.set THEN X(s1, TRUE, FALSE)
              ELSE IF s.force # "take" /\ ~(ins.b = "*" \/ ins.b = s1.input.v) THEN X(s1, FALSE, FALSE)
              ELSE LET s2 == [s1 EXCEPT !.flags = (@ \cup {INMATCH}) \ {READIN}]
                       r == MoveTo(s2, ins.a, ins.ac, FALSE, TRUE, FALSE) IN
                   \* "previous" on the first page counts as no match: keep reading, later INCMPs ignored
                   IF r.err /\ r.idxerr THEN X([s2 EXCEPT !.flags = @ \cup {READIN}], FALSE, FALSE)
                   ELSE r
    [] OTHER -> X(s, TRUE, FALSE)                                      \* NOOP / unknown opcode: "Unhandled state"

(***************************************************************************)
(* One iteration of the run loop.  It = [s, err, done, panic]              *)
(***************************************************************************)
Prologue(s) ==
  LET hadLang == LANG \in s.flags
      f1 == s.flags \ {LANG}
      w == WAIT \in f1
      f2 == IF w THEN f1 \ {WAIT, INMATCH} ELSE f1
      s1 == [s EXCEPT !.flags = f2 \cup {DIRTY},
                      \* CtxKeepsLanguageWhenCleared (code): the context is refreshed only with a non-empty language
                      !.ctxlang = IF hadLang /\ s.lang # "" THEN s.lang ELSE @]
  IN IF w THEN ResetAfterWait(s1) ELSE s1

DeadCheck(s) ==
  IF READIN \notin s.flags THEN [s |-> [s EXCEPT !.flags = @ \cup {TERMINATE}], err |-> FALSE]
  ELSE IF TERMINATE \in s.flags THEN [s |-> s, err |-> FALSE]
  ELSE IF Top(s) \in {"", "_catch"} THEN [s |-> s, err |-> TRUE]
  ELSE [s |-> [s EXCEPT !.errp = [cls |-> "invalid", arg |-> IF s.input.set THEN s.input.v ELSE "(no input)"],
                        !.code = CatchCode], err |-> FALSE]

It(s, e, d) == [s |-> s, err |-> e, done |-> d, panic |-> FALSE, diverged |-> FALSE]
Iter(s) ==
  IF TERMINATE \in s.flags THEN It([s EXCEPT !.code = <<>>], FALSE, TRUE)     \* C06: nothing runs while TERMINATE is set
  ELSE LET s1 == Prologue(s) IN
       IF s1.code = <<>> THEN It(s1, TRUE, TRUE)
       ELSE LET r == ExecInstr(Head(s1.code), [s1 EXCEPT !.code = Tail(@)]) IN
            IF r.panic THEN [It(r.s, TRUE, TRUE) EXCEPT !.panic = TRUE]
            ELSE IF r.halt THEN It(r.s, r.err, TRUE)
            ELSE LET r2 == IF r.err
                           THEN (IF LOADFAIL \in r.s.flags /\ Top(r.s) # "_catch"   \* LoadfailIsSticky (code): never cleared by the VM
                                 THEN [s |-> [r.s EXCEPT !.errp = [cls |-> "err", arg |-> ""], !.code = CatchCode], err |-> FALSE]
                                 ELSE [s |-> [r.s EXCEPT !.errp = [cls |-> "err", arg |-> ""]], err |-> TRUE])
                           ELSE [s |-> r.s, err |-> FALSE] IN
                 IF r2.err THEN It(r2.s, TRUE, TRUE)
                 ELSE LET r3 == IF r2.s.code = <<>> THEN DeadCheck(r2.s) ELSE r2 IN
                      It(r3.s, r3.err, r3.err \/ r3.s.code = <<>>)

\* the whole run; Fuel bounds the evaluation (a run that does not end within Fuel iterations is reported as diverged)
Fuel == 400
RECURSIVE RunLoopN(_, _)
RunLoopN(s, n) == IF n = 0 THEN [It(Bad(s, "diverged"), TRUE, TRUE) EXCEPT !.diverged = TRUE]
                  ELSE LET r == Iter(s) IN IF r.done THEN r ELSE RunLoopN(r.s, n - 1)
RunLoop(s) == RunLoopN(s, Fuel)
\* a new run handles a new input: the match of the previous one is forgotten (nothing changes while TERMINATE is set)
RunStart(s) == IF TERMINATE \in s.flags THEN s ELSE [s EXCEPT !.flags = @ \ {INMATCH}]
Run(s) == RunLoop(RunStart(s))

(***************************************************************************)
(* Projections compared by the properties                                  *)
(***************************************************************************)
NavProj(s)   == [path |-> s.path, idx |-> s.idx]
FlagProj(s)  == s.flags
CacheProj(s) == Obs(s.c)
MapProj(s)   == [mapped |-> s.mapped, psink |-> s.psink]
MenuProj(s)  == [menu |-> s.menu, browse |-> s.browse, pcount |-> s.pcount, msink |-> s.msink]
Levels(s)    == Len(s.c.frames) = Len(s.path) + 1
=============================================================================
