---------------------------- MODULE BytecodeStrMC ----------------------------
(* Every byte string up to MaxLen over a branch-covering alphabet: the spec's  *)
(* verdict is consistent (a string is a program iff it decodes, and what it    *)
(* decodes to re-encodes to a string that decodes to the same instructions);   *)
(* every string is emitted for the real disassembler and VM.                   *)
EXTENDS Bytecode, Json
CONSTANTS Alphabet, MaxLen
VARIABLE s
Init == s = <<>>
Next == Len(s) < MaxLen /\ \E b \in Alphabet : s' = Append(s, b)
Spec == Init /\ [][Next]_s
C15_VerdictConsistent == LET d == DecAll(s) IN
                           /\ (d.ok <=> WellFormedProgram(s))
                           /\ (d.ok => DecAll(EncAll(d.v)) = Acc(d.v, <<>>))
                           /\ (d.ok => \A k \in DOMAIN d.v : WellFormedInstr(d.v[k]))
Emit == PrintT(<<"MBT", ToJson(s')>>)
=============================================================================
