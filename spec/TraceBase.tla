----------------------------- MODULE TraceBase -----------------------------
(* Common machinery of all trace specifications.  The recorded trace is read   *)
(* from the ndjson file named by the environment variable VERIF_TRACE.  Every  *)
(* event carries its own logged pre- and post-state, so each event is judged   *)
(* on its own (a deviation at one event cannot cascade into the next ones):    *)
(* the state space is one state per event (l = n+1 judges event n), all of     *)
(* them initial, and TLC is run with -continue so that EVERY violating event   *)
(* is reported by invariant name and position.  Consecutive events are tied    *)
(* together by each module's Continuity invariant.  The orchestrator checks    *)
(* that the number of distinct states equals the number of trace lines.        *)
EXTENDS Integers, Sequences, FiniteSets, TLC, Json, IOUtils

Trace == ndJsonDeserialize(IOEnv.VERIF_TRACE)
ToSet(q) == {q[i] : i \in DOMAIN q}

VARIABLE l
TraceInit == l \in 2..(Len(Trace) + 1)
TraceNext == UNCHANGED l
TraceSpec == TraceInit /\ [][TraceNext]_l
Have == l > 1
Ev == Trace[l - 1]
=============================================================================
