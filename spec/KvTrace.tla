------------------------------- MODULE KvTrace -------------------------------
(* C10 / C11 judged on operations executed by the real backends (mem, fs text *)
(* keys, fs binary keys, Postgres driver over the fake).  One "kv" line per    *)
(* operation and backend; the model state before an operation is the fold of   *)
(* Apply over the preceding lines of the same sequence and backend.            *)
EXTENDS KvStore, TraceBase
IsKv == Have /\ Ev.ev = "kv"
\* the model follows the real outcome of writes (a Put the backend refused is judged where it happens and does not
\* cascade into the following reads)
ApplyReal(g, e) == IF e.o.op = "put" /\ e.res # "ok" THEN g ELSE Apply(g, e.o).g
RECURSIVE Before(_)
Before(i) == IF Trace[i].first THEN Store0 ELSE ApplyReal(Before(i - 1), Trace[i - 1])
G == Before(l - 1)
R == Apply(G, Ev.o)
Modelled == Ev.o.op \in {"setprefix", "setsession", "setlang", "setctxlang", "setlock", "put", "get"}

\* ---- C10: every backend is the same keyed map
C10_NoPanic == IsKv => Ev.panic = ""
C10_Result  == IsKv /\ Modelled /\ Ev.panic = "" => R.res = Ev.res /\ (Ev.o.op = "get" /\ Ev.res = "ok" => R.val = Ev.val)
\* listing (filesystem): exactly the stored keys of the current type and session with that prefix, once each, with their values
Mine == {k \in DOMAIN G.m : k[1] = G.h.pfx /\ k[2] = (IF Sessioned(G.h.pfx) THEN G.h.sid ELSE "") /\ k[4] = ""}
Listed == {<<Ev.list[i].k, Ev.list[i].v>> : i \in DOMAIN Ev.list}
\* (listings of the translatable types mix default and translated entries under one decoded key: not specified by C10)
FsDump == IsKv /\ Ev.o.op = "dump" /\ Ev.backend \in {"fs", "fsbin"}
C10_DumpOnce == FsDump /\ Ev.res = "ok" /\ ~Translatable(G.h.pfx) => Cardinality(Listed) = Len(Ev.list) /\ Cardinality({Ev.list[i].k : i \in DOMAIN Ev.list}) = Len(Ev.list)
\* (with no session selected the sessioned types have no namespace of their own: judged by C11, not here)
NoNs == Sessioned(G.h.pfx) /\ G.h.sid = ""
C10_DumpSound == FsDump /\ Ev.res = "ok" /\ ~Translatable(G.h.pfx) /\ ~NoNs => \A p \in Listed : \E k \in Mine : k[3] = p[1] /\ G.m[k] = p[2]
C10_DumpComplete == IsKv /\ Ev.o.op = "dump" /\ Ev.o.k = "" /\ Ev.backend \in {"fs", "fsbin"} /\ ~Translatable(G.h.pfx) /\ G.h.pfx # 0 /\ ~NoNs =>
                      (IF Mine = {} THEN Ev.res = "notfound" ELSE Ev.res = "ok" /\ \A k \in Mine : <<k[3], G.m[k]>> \in Listed)

\* ---- C11: no value crosses a session or data-type boundary
C11_NoCrossRead == IsKv /\ Ev.o.op = "get" /\ Ev.res = "ok" /\ Ev.known =>
                      Ev.pt = G.h.pfx /\ (Sessioned(G.h.pfx) => Ev.ps = G.h.sid)
C11_NoCrossList == IsKv /\ Ev.o.op = "dump" /\ Ev.res = "ok" =>
                      \A i \in DOMAIN Ev.list : Ev.list[i].pk => (Ev.list[i].pt = G.h.pfx /\ (Sessioned(G.h.pfx) => Ev.list[i].ps = G.h.sid))
\* a value written under one session / type is not destroyed from another: reading my own key returns my own latest write
C11_NoCrossOverwrite == IsKv /\ Ev.o.op = "get" /\ Ev.panic = "" /\ R.res = "ok" => Ev.res = "ok" /\ (Ev.known => (Ev.pt = G.h.pfx /\ (Sessioned(G.h.pfx) => Ev.ps = G.h.sid)))

(* "kvc" lines: sessions working at the same time on one filesystem data directory, each through its own handle.       *)
(* Every line is judged on its own: a session reads what that session wrote last under that key and data type - never   *)
(* another session's or data type's value, a torn value, or nothing.  (want "?": the session's last write was refused.) *)
IsKvc == Have /\ Ev.ev = "kvc"
C11_ConcOwnData == IsKvc /\ Ev.op = "get" /\ Ev.want # "?" =>
                      IF Ev.want = "" THEN Ev.res = "notfound"
                      ELSE Ev.res = "ok" /\ Ev.got = Ev.want /\ Ev.gotok
C11_ConcWriteAccepted == IsKvc /\ Ev.op = "put" => Ev.res = "ok"

(* "sessids" lines: a session served through per-request engines and persisters over a filesystem directory that already   *)
(* holds the sessions of ids differing from its own in one punctuation character, in letter case or in surrounding white   *)
(* space (b), and alone in a directory (a): ids that differ are different sessions, whatever the engine does with them.    *)
C11_EngineSessionsApart == Have /\ Ev.ev = "sessids" => Ev.a = Ev.b
=============================================================================
