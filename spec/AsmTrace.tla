------------------------------- MODULE AsmTrace -------------------------------
(* C16 judged on the real assembler: "asm" lines carry the abstract source     *)
(* lines, whether asm.Parse succeeded / panicked, and the produced bytecode    *)
(* decoded by the harness's own decoder.                                       *)
EXTENDS Asm, TraceBase
IsAsm == Have /\ Ev.ev = "asm"
C16_NoPanic  == IsAsm => Ev.panic = ""
C16_Accepts  == IsAsm /\ Ev.panic = "" => Ev.ok
C16_Fidelity == IsAsm /\ Ev.panic = "" /\ Ev.ok => Ev.decok /\ Ev.dec = Translate(Ev.src)
=============================================================================
