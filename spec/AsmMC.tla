-------------------------------- MODULE AsmMC --------------------------------
(* Enumerates source programs (line sequences) over every opcode, the        *)
(* selector alphabet (digits, letters, mixed, leading zeros, wildcard),      *)
(* numeric widths and all combinations/orders of batch lines; checks the     *)
(* shape of the expansion on the model and emits every program for the real  *)
(* assembler.                                                                *)
EXTENDS Asm, Json
CONSTANTS MaxLines, Selectors, Sizes
Syms == {"foo", "ba_r9"}
\* a symbol of 130 bytes (symbols may be up to 255 bytes long: the length prefix is ONE byte also above 127)
LongSym == "looooooooooooooooooooooooooooooooooooooooooooooooooooooooooooooooooooooooooooooooooooooooooooooooooooooooooooooooooooooooooooooong"
L(op, a, b, n, m, c) == [op |-> op, a |-> a, b |-> b, n |-> n, m |-> m, c |-> c]
Lines == {L(o, "", "", 0, 0, "") : o \in {"HALT", "MSINK"}}
         \cup {L(o, s, "", 0, 0, "") : o \in {"RELOAD", "MAP"}, s \in Syms}
         \cup {L("MOVE", s, "", 0, 0, "") : s \in Syms \cup {"_", "^", ".", ">", "<"}}
         \cup {L("INCMP", s, sel, 0, 0, "") : s \in {"foo", "_", "^"}, sel \in Selectors}
         \* the builtin node name _catch: the one legal multi-character symbol that begins with a special character
         \cup {L("LOAD", LongSym, "", 5, 0, ""), L("MOVE", LongSym, "", 0, 0, ""), L("INCMP", LongSym, "1", 0, 0, ""), L("MOUT", LongSym, "1", 0, 0, "")}
         \cup {L("MOVE", "_catch", "", 0, 0, ""), L("INCMP", "_catch", "*", 0, 0, ""), L("INCMP", "_catch", "0", 0, 0, ""),
               L("CATCH", "_catch", "", 8, 1, ""), L("DOWN", "_catch", "9", 0, 0, "lbl")}
         \cup {L(o, "lbl", sel, 0, 0, "") : o \in {"MOUT", "MNEXT", "MPREV"}, sel \in Selectors \ {"*"}}
         \cup {L("LOAD", "foo", "", n, 0, "") : n \in Sizes}
         \cup {L("CATCH", "foo", "", n, m, "") : n \in {0, 8, 255, 256}, m \in {0, 1}}
         \cup {L("CROAK", "", "", n, m, "") : n \in {8, 300}, m \in {0, 1}}
         \cup {L("DOWN", "foo", sel, 0, 0, "lbl") : sel \in Selectors \ {"*"}}
         \cup {L(o, sel, "lbl", 0, 0, "") : o \in {"UP", "NEXT", "PREVIOUS"}, sel \in Selectors \ {"*"}}
VARIABLE src
Init == src = <<>>
\* batch lines form ONE group per source (instructions.texi puts it at the end of a node's code; ordinary instructions after
\* it assemble too - a second group would repeat the first, the menu processor is not reset): once a group is closed by an
\* ordinary line no further batch line is written
Closed == \E i \in 1..(Len(src) - 1) : IsBatch(src[i]) /\ ~IsBatch(src[i + 1])
Next == Len(src) < MaxLines /\ \E l \in Lines :
          /\ (Closed => ~IsBatch(l))
          /\ src' = Append(src, l)
Spec == Init /\ [][Next]_src

NPlain == Cardinality({i \in DOMAIN src : ~IsBatch(src[i])})
NBatch == Cardinality({i \in DOMAIN src : IsBatch(src[i])})
Groups == Cardinality({i \in DOMAIN src : IsBatch(src[i]) /\ (i = Len(src) \/ ~IsBatch(src[i + 1]))})
\* one instruction per plain line, MOUT + INCMP per batch line, one HALT per group of batch lines
C16_Count == Len(Translate(src)) = NPlain + 2 * NBatch + Groups
\* every selector written appears unaltered in the output
C16_SelectorsKept == \A i \in DOMAIN src : SelectorOf(src[i]) # "" =>
                        \E k \in DOMAIN Translate(src) : Translate(src)[k].b = SelectorOf(src[i])
Emit == PrintT(<<"MBT", ToJson([src |-> src'])>>)
=============================================================================
