#!/usr/bin/env python3
"""Writes /verif/MANIFEST.json from the table below (single source of truth for what is claimed)."""
import json, os, subprocess
V = os.path.dirname(os.path.dirname(os.path.abspath(__file__)))
ALL = ['C%02d' % i for i in range(1, 21)]

CHECKS = {
 'C09': dict(
   category='model_checking',
   text='Cache.tla states the cache semantics C09 requires; TLC checks the five C09 invariants exhaustively over all operation sequences '
        'to depth 3/4 with boundary lengths (0..70000 across the 16-bit boundary), limits and capacities; every transition of the bounded '
        'model is replayed on the real cache.Cache and seeded random sequences are recorded; every real operation is judged by TLC against '
        'the C09 predicates (CacheTrace.tla) from its own logged pre-state.'
        ' CacheInd.tla additionally shows Consistent to be an inductive invariant: every operation from EVERY consistent cache of a bounded universe (not only reachable ones), the same steps executed on real caches built in those states.',
   design_ref='DESIGN.md section 6 (C09)',
   note='Trusted: TLC, the Go recorder\'s projection of cache.Cache (exported fields), value abstraction to (id,length). Bounded: depth of the exhaustive part; random part is sampling.',
   technique='TLA+ spec (Cache.tla) model-checked with TLC; model-transition replay + trace validation of cache.Cache by TLC'),
 'C03': dict(
   category='model_checking',
   text='Vise.tla is an interpreter specification of the VM run loop; ViseMC checks on model programs (all inputs at every HALT, all external results, '
        'duplicated selectors, wildcard anywhere, relative targets) the ghost invariants AtMostOneInputMove, FirstMatchWins, NoMatchGoesToCatch; every model '
        'history is replayed on the real engine and every real INCMP / dead-check iteration (model histories + random well-formed programs) is judged by TLC '
        'against the spec step function applied to its logged pre-state.'
        " Request-level: the input the VM routes is this request's input (C03_RoutedInput) and the invalid-input message reaches the page (C03_MessageShown).",
   design_ref='DESIGN.md section 6 (C03)',
   note='Trusted: TLC, the verif hook in vm.Run (two add-only lines), the recorder projection. Bounded: request depth of the exhaustive part, program families.',
   technique='TLA+ interpreter spec (Vise.tla) + TLC model checking + instruction-level trace validation of the real VM'),
 'C04': dict(
   category='model_checking',
   text='ApplyTarget of Vise.tla transcribes the documented move table; TLC compares the navigation projection (path, index) of EVERY executed instruction '
        'of every recorded real run with the table applied to the logged pre-state (MOVE, INCMP, CATCH, all target kinds incl. failing ones); model programs '
        'are explored exhaustively and their histories replayed on the real engine.'
        " Request-level: the position after every request equals the specification's (C04_ReqNav), also with the engine options ResetOnEmptyInput / WithFirst (model program first).",
   design_ref='DESIGN.md section 6 (C04)',
   note='Trusted: TLC, verif hook, recorder projection of state.State. Whether a conditional move is taken is judged by C03/C06.',
   technique='TLA+ interpreter spec + TLC model checking + per-instruction trace validation'),
 'C05': dict(
   category='model_checking',
   text='Vise.tla + Cache.tla state LOAD/RELOAD/MAP and scope semantics; ViseMC checks ScopeLifetime (ghost load level), LimitsHold, MappedVisible on model programs '
        'with empty / at-limit / over-limit / failing external results; on real runs TLC compares cache frames, accounting, mapped set and the external-call log '
        'of every iteration with the spec step applied to the logged pre-state.',
   design_ref='DESIGN.md section 6 (C05)',
   note='Trusted: TLC, verif hook and accessors (Page.VerifMapped), recording resource. Values abstracted to (id,len).',
   technique='TLA+ interpreter spec + TLC model checking + per-instruction trace validation'),
 'C06': dict(
   category='model_checking',
   text='CATCH/CROAK tests, the external-code flag write filter and the TERMINATE gate are stated in Vise.tla; ViseMC checks TerminateBlocks on model programs whose '
        'external functions set/reset reserved, TERMINATE, LANG and client flags; on real runs TLC compares flag bits, control transfer and the blocked-run behaviour of '
        'every iteration with the spec step applied to the logged pre-state.'
        ' Request level (C06_ReqCtl): whether the session ends or goes to the catch node, the position and the client flags after a request are those of the specification run from the session as it was before the request.',
   design_ref='DESIGN.md section 6 (C06)',
   note='Trusted: TLC, verif hook, recording resource. READIN/INMATCH are charged to C03.',
   technique='TLA+ interpreter spec + TLC model checking + per-instruction trace validation'),
 'C07': dict(
   category='model_checking',
   text='Engine.tla splits the session into its persisted part (exported fields of State/Cache) and its volatile part; ViseEq is the product of a long-lived and a '
        'persisted copy fed the same inputs and external results, TLC checks ModeEquiv and SnapshotRoundTrip on model programs; on the real code every generated history is '
        'served twice (one long-lived engine vs fresh engine + Persister per request) over memory, filesystem and the Postgres driver on an in-process fake, and TLC '
        'compares the transcripts and the re-read stored snapshot with the live session (ViseTrace C07_*).'
        ' Two sessions alternating through ONE reused Persister (WithFlush) must give the transcripts of fresh persisters (C07_Reuse*).'
        ' engine.Loop (Loop.tla): every second history is also served through the real line-oriented driver (trimmed lines, missing final line feed, tagged writes) and the rest of it by fresh engines from the store; TLC compares with LoopRun applied to the reference answers (C07_LoopInputs / LoopRefines / LoopResume).',
   design_ref='DESIGN.md section 6 (C07)',
   note='Trusted: TLC, recorder, fakepg (in-process transactional fake of the pgx interface). gdbm cannot be built in this sandbox. Comparison up to the end of the session.',
   technique='TLA+ product model (ViseEq) checked with TLC + two-run trace validation of the real engine on three stores'),
 'C08': dict(
   category='model_checking',
   text='Vise/Engine.tla model every place the code indexes, slices or panics; ViseMC checks NoPanic, cache consistency and one-scope-per-level on model programs for all '
        'inputs (selectors, unknown, empty, refused, over-long) to a request bound; all those histories plus random well-formed programs with junk byte strings (0..300 bytes) '
        'run on the real engine under recover() and a watchdog, in long-lived and persisted mode over three stores; TLC judges every iteration and request (no panic, levels, '
        'accounting, saved-and-loadable).'
        ' Engine options (ResetOnEmptyInput, WithFirst incl. failing / blocking pre-VM checks) are part of the model programs and drawn for random programs.'
        ' ViseInd.tla shows the session invariants (one scope per level, accounting, path, no panic, TERMINATE gate) to be inductive over the run-loop iteration: one Iter from every invariant-satisfying session of a bounded universe.'
        ' A refused request (bad format, over-long) leaves the pending code pending (C08_RefusedContinuable).'
        ' After every accepted request the session is blocked / has pending code exactly as the specification says (C08_ReqContinuable).'
        ' engine.Loop never panics or hangs on these histories (C08_LoopNoPanic).',
   design_ref='DESIGN.md section 6 (C08)',
   note='Trusted: TLC, recorder, generator of well-formed programs. Known findings (CROAK keeps path; maxlevel panic) are matched by specific predicates, everything else fails the check. Example applications: see evidence.',
   technique='TLA+ interpreter spec + TLC model checking + trace validation of recorded real runs (exhaustive small histories, random beyond)'),
 'C17': dict(
   category='model_checking',
   text='Reject / FlushBeforeExec are explicit no-op transitions of Engine.tla; ViseMC inserts refused inputs (bad format, over-long) at every position of every model '
        'history and checks RejectNoEffect; on the real engine TLC compares the session before/after every refused request (position, flags, cache, code, stored record, '
        'no instruction, no external call, no output) and paired runs with/without inserted refused inputs must give identical transcripts.'
        ' Applications with a pre-VM check are judged too (C17_RefusedFirst: position, cache scopes, pending code, language unchanged; outcome as the specification says).'
        ' A third of the generated applications accept an extra input format (engine.AddValidInput); look-alikes of it are among the refused inputs.',
   design_ref='DESIGN.md section 6 (C17)',
   note='Trusted: TLC, recorder; input classes computed by the harness from the documented pattern, independently of vm.ValidInput (incl. the extra format of applications that add one).',
   technique='TLA+ spec + TLC model checking + trace validation incl. two-run comparison'),
 'C18': dict(
   category='model_checking',
   text='lang is a persisted variable of the spec and every resource lookup is an observable event carrying the context language; ViseMC checks LangReaches on programs '
        'that switch language with valid/invalid/empty codes; on the real engine the recording resource logs the context language of every code/template/menu/function lookup and TLC '
        'checks them against the session language, the language transition of every external call, and that the language survives save/load.'
        ' The end-to-end stage runs half of the applications with Config.Language, lets programs end gracefully and sessions start over, and checks that the session language is the configured one until a function selects another and the selected one from then on (C18_LangKept).',
   design_ref='DESIGN.md section 6 (C18)',
   note='Trusted: TLC, recording resource, ISO-639 table. Translation fallback of DbResource is exercised in C10.',
   technique='TLA+ spec + TLC model checking + trace validation of logged lookups'),
 'C20': dict(
   category='model_checking',
   text='ExecEnd / FlushReq / EngineReset / LoadEngine of Engine.tla classify graceful end vs termination; ViseMC (persisted mode) checks GracefulEndUnwinds, ClientFlagsKept, '
        'RestartAtRoot, TerminateBlocks on programs with both kinds of end node at depth 1-3 with histories running past the end; the same histories and random programs run on the '
        'real engine (fresh engine + Persister per request, three stores) and TLC judges every request: outcome class, unwinding, restart at root, blocked requests produce nothing.'
        " The value appended to the final output (read from the engine object) is compared with the specification's (C20_ExitValue); ResetOnEmptyInput and a pre-VM check are covered by model programs rempty / first.",
   design_ref='DESIGN.md section 6 (C20)',
   note='Trusted: TLC, recorder, fakepg. Engine configured without a first function. One known finding (blocked request renders after a failed terminating request).',
   technique='TLA+ spec + TLC model checking + request-level trace validation in persisted mode'),
 'C01': dict(
   category='model_checking',
   text='Render.tla transcribes the sizing/pagination algorithm and states the contract; TLC checks Fits exhaustively on the algorithm model over all configurations '
        'of the bound (sizes x row-length sequences x template x menu x browse) and emits every configuration; each is rendered by the real render.Page at every page index '
        'and TLC evaluates C01_Fits / NoSilentTruncation on the real outputs; at engine level every Flush of recorded sessions over programs with an output size is checked '
        '(paged sinks, error prefix, exit value).'
        ' Engine level: second screens reached without a move (program inline), pagination walks through real engines.',
   design_ref='DESIGN.md section 6 (C01)',
   note='Trusted: TLC, the recorder that measures the real output. Bounded: configuration space of the exhaustive part; random larger configurations are sampling. One known finding (exit value appended after the size check).',
   technique='TLA+ spec (Render.tla) + TLC exhaustive enumeration + contract evaluation on real renders and real Flush outputs'),
 'C02': dict(
   category='model_checking',
   text='The contract of C02 (Partition, StaticEverywhere, NavOffered, OfferedRenders, PastEndIsError, NoPanic) is stated over the family of pages of one configuration; TLC '
        'enumerates all configurations of the bound, checks the clauses the algorithm model satisfies, and every configuration is rendered by the real code for every page '
        'index from 0 to beyond the end; TLC evaluates the contract on the real page families and compares the real grouping with the algorithm transcription.'
        ' Engine level (walk-run): a client walks a paged node with the next selector, visits a second paged node and walks the first again, with one long-lived engine and with an engine per request; TLC judges Partition / Nav / Static / NoFail per walk.'
        ' Content that fits on one page (length computed by the recorder) must be shown (C02_FitsThenShown).',
   design_ref='DESIGN.md section 6 (C02)',
   note='Trusted: TLC, the recorder\'s parsing of a page into static text / sink lines / menu lines. Two known findings (empty row at a page start dropped; next into an oversize page) are excused only where the real family equals the pinned algorithm transcription.',
   technique='TLA+ spec + TLC exhaustive enumeration + contract evaluation on real page families'),
 'C13': dict(
   category='model_checking',
   text='PgTx.tla models the pgDb handle (tx, multi; Start/Stop/Abort/Put/Get split into primitive driver calls) over a transactional server with the aborted-transaction rule '
        'and a fault plan; TLC explores all operation sequences to a bound with every placement of 1-2 failing primitives and checks NoPanic, ErrorReported, NoWedge/AckedVisible, '
        'EndedOnce, Multi against a keyed-map oracle; every behaviour is executed on the real pgDb over an in-process fake of the pgx interface and TLC judges every real operation '
        'against the oracle folded over the recorded sequence.'
        ' Statements may also fail on the client side (transaction not poisoned); the committed content of the server is observed after every operation: nothing becomes durable that was never acknowledged (C13_NoUnackedDurable).'
        ' COMMIT / ROLLBACK / statements that reach a finished transaction are logged by the model and the fake: no transaction is ended twice (C13_NotEndedTwice, not excusable by the known finding).',
   design_ref='DESIGN.md section 6 (C13)',
   note='Trusted: TLC, fakepg (120-line transactional fake), oracle in PgTx.tla. One known finding (sticky multi) excused only for operations after an explicit transaction has ended on the handle.',
   technique='TLA+ spec (PgTx.tla) + TLC exhaustive fault enumeration + trace validation of the real handle over a fake server'),
 'C14': dict(
   category='model_checking',
   text='Bytecode.tla defines Enc/Dec over byte sequences (32-bit integers as byte 4-tuples); TLC checks RoundTrip, ProgramRoundTrip, MinimalWidth and the adjacency of the four '
        'integer width classes for all 12 opcodes x symbol lengths {1,2,254,255} x boundary integers x both modes; every enumerated instruction and generated whole programs go through '
        'vm.NewLine, the assembler (asm.Parse of the printed source), vm.Parse* and ParseHandler.ToString, and TLC compares bytes, decoded records, consumed lengths and listing with the spec; '
        'a Go sweep runs every uint32 (thorough) through the assembler\'s integer writer and the VM\'s integer reader against the TLC-checked class table.'
        ' A quarter of the generated symbols carry punctuation (format verbs, quotes, braces, backslashes) and non-ASCII bytes.',
   design_ref='DESIGN.md section 6 (C14)',
   note='Trusted: TLC, harness parsing of the listing, verif accessor asm.VerifWriteSize. Interior of the width classes: Go sweep against the table, not TLC per value.',
   technique='TLA+ spec (Bytecode.tla) + TLC model checking + trace validation of all real encoders/decoders + exhaustive integer sweep'),
 'C15': dict(
   category='model_checking',
   text='WellFormedProgram / DecAll of Bytecode.tla give the verdict for any byte string; TLC enumerates all strings up to length 4/5 over a branch-covering alphabet, checks verdict consistency, '
        'and each string - plus every truncation and six corruptions per byte of generated valid programs - is given to ParseAll, ToString and Vm.Run under recover(); TLC recomputes the expected verdict per '
        'recorded line: no panic, no success for malformed input, valid programs accepted, the VM refuses a malformed first instruction.'
        ' The hook logs the pending code at every instruction boundary of Vm.Run: a run that reports success never stood before a malformed instruction (C15_RunDecodes), also behind a matching / wildcard / non-matching INCMP.',
   design_ref='DESIGN.md section 6 (C15)',
   note='Trusted: TLC, recorder. No coverage-guided fuzzing (outside this technique family). NOOP handled as a named deviation.',
   technique='TLA+ spec + TLC exhaustive small strings + spec-judged mutation of valid programs on the real decoders'),
 'C16': dict(
   category='model_checking',
   text='Asm.tla translates abstract source lines to instruction records incl. the documented batch expansion; TLC enumerates all programs of up to 2/3 lines over every opcode, the selector '
        'alphabet, width-boundary sizes and all subsets/orders of batch lines, checks the expansion shape, and every program (also with comments / blank lines, and random programs up to 30 lines) '
        'is assembled by the real asm.Parse; the bytes are decoded by the harness\'s own decoder and TLC compares them with Translate(src).'
        ' The builtin node name _catch is part of the symbol universes.',
   design_ref='DESIGN.md section 6 (C16)',
   note='Trusted: TLC, harness printer and decoder. One known finding (numeric-looking selectors are altered) excused only for sources containing such a selector.',
   technique='TLA+ spec (Asm.tla) + TLC enumeration + trace validation of the real assembler'),
 'C10': dict(
   category='model_checking',
   text='KvStore.tla models a backend handle (sticky prefix / session / language, lock mask, seal) over the keyed map LogicalKey -> value with translation fallback; TLC checks '
        'LockedPutNoChange, SealIrreversible, ReadYourWrite, OnlyPutChanges over all operation sequences to a bound and emits them; every behaviour and random well-formed histories '
        '(incl. Dump on the filesystem backend) run on mem, fs (text keys), fs (binary keys) and the Postgres driver over the fake, and TLC judges every real operation against the model '
        'folded over the recorded sequence - so the four backends are compared with the model and thereby with each other.'
        ' The lock argument is a bit mask (MaskTypes): combined masks before and after sealing are part of the model alphabet and of fixed sequences.',
   design_ref='DESIGN.md section 6 (C10)',
   note='Trusted: TLC, recorder, fakepg. gdbm cannot be built here. Dump judged for non-translatable types with a session selected.',
   technique='TLA+ spec (KvStore.tla) + TLC model checking + trace validation of four real backends'),
 'C11': dict(
   category='model_checking',
   text='The storage key is modelled as a character sequence; TLC checks injectivity of the encoding over all (type, session, key) with adversarial strings up to length 2 (separators, path '
        'elements, type-prefix characters) and emits every colliding pair; each pair is replayed on the real backends as write-under-a / read-under-b, random adversarial histories are recorded, and '
        'TLC checks on every real read / listing that the returned value was written under the same data type and session (unique values carry their provenance).'
        ' Sessions working at the same time on one filesystem directory through their own handles read back only what they wrote (C11_ConcOwnData); listings of the Postgres driver (key-range scan on the fake) are judged for cross-type / cross-session entries.'
        ' Families of session ids and keys that differ in one punctuation character (every ordered pair) and the empty key are part of the universes.'
        ' Stage E: sessions whose ids differ in surrounding white space, letter case or one punctuation character are served through per-request engines over one directory and compared with themselves alone (C11_EngineSessionsApart).',
   design_ref='DESIGN.md section 6 (C11)',
   note='Trusted: TLC, recorder provenance table. Three known findings (dot ambiguity, fs path cleaning, fs legacy name) matched by predicates over the recorded history; any other cross-read fails the check.',
   technique='TLA+ spec + TLC injectivity enumeration + trace validation with value provenance on four real backends'),
 'C12': dict(
   category='fault_enumeration',
   text='FsSave.tla is a directory of files under primitive operations with a Crash action before every operation and torn writes (model only); the operation sequence of a save is not '
        'assumed but recorded from the real code with strace and fed to the model, so TLC enumerates every crash point of what the code really does; the real saving process is then killed '
        '(strace fault injection, SIGKILL on entry to the call) at every store-touching system call of the save, for several consecutive old/new state pairs; a fresh process loads the session, '
        'classifies it old / new / corrupt / missing, serves one more request (must continue, not restart) and checks the neighbouring session\'s record; model prediction and real outcome must agree.'
        " The two sessions' ids differ in one punctuation character; the neighbour's record is compared before and after the session is served."
        ' While the session is taken down the application writes data of its own through the same store handle.',
   design_ref='DESIGN.md section 6 (C12)',
   note='Trusted: strace injection, the single-threaded saver, the classification by projection of the loaded state. A process death cannot tear one write(2): torn writes are model-only.',
   technique='TLA+ crash model over a strace-recorded operation sequence + real SIGKILL injection at every recorded crash point'),
 'C19': dict(
   category='model_checking',
   text='Sessions.tla interleaves two sessions at instruction granularity over shared immutable code with byte buffers modelled as Go slices (array, offset, length, capacity), which makes writes '
        'through aliased spare capacity visible; TLC checks NonInterference and NoSharedWrite over all interleavings and emits every complete schedule; each schedule is reproduced exactly on the '
        'real VM (the run-loop hook is the scheduler gate) and compared with solo runs; free-running randomized sessions on 2..16 goroutines over one shared resource (slices with and without spare '
        'capacity) run under the Go race detector with transcript comparison and a check that shared data is unmodified.'
        " FsSaveConc.tla: the file operations of two real saves (strace) run as two processes over a directory with names, inodes and open files; TLC explores every interleaving (each record ends as its own session's complete state). Free-running mode F: own fs store handles on one shared directory."
        ' Half of the histories are served with a configured default language; the language a session ends each request with is part of the transcripts.'
        ' A third of the histories run with state debugging; the solo references are computed after the concurrent phase so that lazy first-use initialisation happens while sessions run side by side.'
        ' Every fifth application adds an input format to each of its engines (engine.AddValidInput) while other sessions send inputs that consult the formats.',
   design_ref='DESIGN.md section 6 (C19)',
   note='Trusted: TLC, the Go race detector (decides the "no data race" half), the hook gate. The model covers aliasing of the code buffer; other shared state is searched for by the race detector only.',
   technique='TLA+ interleaving/aliasing model + TLC schedules replayed deterministically + race-detector runs'),
}

NOT_YET = 'check not built yet in this round (planned: DESIGN.md section 6); not claimed until its machinery exists'


def main():
    hooks = subprocess.run(['git', '-C', '/repo', 'log', '--format=%h %s', '--grep=^verif:'], stdout=subprocess.PIPE, text=True).stdout.split('\n')
    m = dict(version=1,
             setup_cmd='./check --setup',
             hooks=dict(guard='verif (Go build tag)', enable='go build -tags verif (the harness module /verif/harness replaces the go-vise module with /repo)',
                        baseline_off_cmd='python3 /verif/tools/baseline.py', source_commits=[h.split()[0] for h in hooks if h.strip()], add_only=True),
             engines=[dict(name='tlc', path='/verif/spec', serves_properties=sorted(CHECKS), kind_free_text='TLA+ specifications checked with TLC 1.8 (exhaustive model checking, behaviour generation, trace validation)'),
                      dict(name='vh', path='/verif/harness', serves_properties=sorted(CHECKS), kind_free_text='Go harness built with -tags verif against /repo: recorders and replayers; never decides a property')],
             checks=[], notes='See DESIGN.md. Orchestrator: ./check <ID> [--tier quick|thorough] [--replay path] [--selftest]. known findings: known_findings.json',
             not_applicable=[])
    for pid in ALL:
        c = CHECKS.get(pid)
        if not c:
            m['not_applicable'].append(dict(property_id=pid, reason=NOT_YET))
            continue
        m['checks'].append(dict(property_id=pid, quick_cmd='./check %s --tier quick' % pid, thorough_cmd='./check %s --tier thorough' % pid,
                                evidence_file='/verif/evidence/%s.json' % pid, replay_cmd_template='./check %s --replay {path}' % pid,
                                engine='tlc', level_claimed=dict(category=c['category'], text=c['text'], design_ref=c['design_ref']),
                                level_note=c['note'], technique=c['technique']))
    json.dump(m, open(os.path.join(V, 'MANIFEST.json'), 'w'), indent=1)
    print('MANIFEST.json: %d checks, %d not_applicable' % (len(m['checks']), len(m['not_applicable'])))


if __name__ == '__main__':
    main()
