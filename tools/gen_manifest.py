#!/usr/bin/env python3
"""Writes /verif/MANIFEST.json from the table below (single source of truth for what is claimed)."""
import json, os, subprocess
V = os.path.dirname(os.path.dirname(os.path.abspath(__file__)))
ALL = ['C%02d' % i for i in range(1, 21)]

CHECKS = {
 'C09': dict(
   category='model_checking',
   text='Cache.tla states the cache semantics C09 requires; TLC checks the five C09 invariants exhaustively over all operation sequences '
        'to depth 3/4 with boundary lengths (0..70000 across the 16-bit boundary), limits and capacities; every transition of the bounded '
        'model is replayed on the real cache.Cache and seeded random sequences are recorded; every real operation is judged by TLC against '
        'the C09 predicates (CacheTrace.tla) from its own logged pre-state.',
   design_ref='DESIGN.md section 6 (C09)',
   note='Trusted: TLC, the Go recorder\'s projection of cache.Cache (exported fields), value abstraction to (id,length). Bounded: depth of the exhaustive part; random part is sampling.',
   technique='TLA+ spec (Cache.tla) model-checked with TLC; model-transition replay + trace validation of cache.Cache by TLC'),
 'C03': dict(
   category='model_checking',
   text='Vise.tla is an interpreter specification of the VM run loop; ViseMC checks on model programs (all inputs at every HALT, all external results, '
        'duplicated selectors, wildcard anywhere, relative targets) the ghost invariants AtMostOneInputMove, FirstMatchWins, NoMatchGoesToCatch; every model '
        'history is replayed on the real engine and every real INCMP / dead-check iteration (model histories + random well-formed programs) is judged by TLC '
        'against the spec step function applied to its logged pre-state.',
   design_ref='DESIGN.md section 6 (C03)',
   note='Trusted: TLC, the verif hook in vm.Run (two add-only lines), the recorder projection. Bounded: request depth of the exhaustive part, program families.',
   technique='TLA+ interpreter spec (Vise.tla) + TLC model checking + instruction-level trace validation of the real VM'),
 'C04': dict(
   category='model_checking',
   text='ApplyTarget of Vise.tla transcribes the documented move table; TLC compares the navigation projection (path, index) of EVERY executed instruction '
        'of every recorded real run with the table applied to the logged pre-state (MOVE, INCMP, CATCH, all target kinds incl. failing ones); model programs '
        'are explored exhaustively and their histories replayed on the real engine.',
   design_ref='DESIGN.md section 6 (C04)',
   note='Trusted: TLC, verif hook, recorder projection of state.State. Whether a conditional move is taken is judged by C03/C06.',
   technique='TLA+ interpreter spec + TLC model checking + per-instruction trace validation'),
 'C05': dict(
   category='model_checking',
   text='Vise.tla + Cache.tla state LOAD/RELOAD/MAP and scope semantics; ViseMC checks ScopeLifetime (ghost load level), LimitsHold, MappedVisible on model programs '
        'with empty / at-limit / over-limit / failing external results; on real runs TLC compares cache frames, accounting, mapped set and the external-call log '
        'of every iteration with the spec step applied to the logged pre-state.',
   design_ref='DESIGN.md section 6 (C05)',
   note='Trusted: TLC, verif hook and accessors (Page.VerifMapped), recording resource. Values abstracted to (id,len).',
   technique='TLA+ interpreter spec + TLC model checking + per-instruction trace validation'),
 'C06': dict(
   category='model_checking',
   text='CATCH/CROAK tests, the external-code flag write filter and the TERMINATE gate are stated in Vise.tla; ViseMC checks TerminateBlocks on model programs whose '
        'external functions set/reset reserved, TERMINATE, LANG and client flags; on real runs TLC compares flag bits, control transfer and the blocked-run behaviour of '
        'every iteration with the spec step applied to the logged pre-state.',
   design_ref='DESIGN.md section 6 (C06)',
   note='Trusted: TLC, verif hook, recording resource. READIN/INMATCH are charged to C03.',
   technique='TLA+ interpreter spec + TLC model checking + per-instruction trace validation'),
}

NOT_YET = 'check not built yet in this round (planned: DESIGN.md section 6); not claimed until its machinery exists'


def main():
    hooks = subprocess.run(['git', '-C', '/repo', 'log', '--format=%h %s', '--grep=^verif:'], stdout=subprocess.PIPE, text=True).stdout.split('\n')
    m = dict(version=1,
             setup_cmd='./check --setup',
             hooks=dict(guard='verif (Go build tag)', enable='go build -tags verif (the harness module /verif/harness replaces the go-vise module with /repo)',
                        baseline_off_cmd='python3 /verif/tools/baseline.py', source_commits=[h.split()[0] for h in hooks if h.strip()], add_only=True),
             engines=[dict(name='tlc', path='/verif/spec', serves_properties=sorted(CHECKS), kind_free_text='TLA+ specifications checked with TLC 1.8 (exhaustive model checking, behaviour generation, trace validation)'),
                      dict(name='vh', path='/verif/harness', serves_properties=sorted(CHECKS), kind_free_text='Go harness built with -tags verif against /repo: recorders and replayers; never decides a property')],
             checks=[], notes='See DESIGN.md. Orchestrator: ./check <ID> [--tier quick|thorough] [--replay path] [--selftest]. known findings: known_findings.json',
             not_applicable=[])
    for pid in ALL:
        c = CHECKS.get(pid)
        if not c:
            m['not_applicable'].append(dict(property_id=pid, reason=NOT_YET))
            continue
        m['checks'].append(dict(property_id=pid, quick_cmd='./check %s --tier quick' % pid, thorough_cmd='./check %s --tier thorough' % pid,
                                evidence_file='/verif/evidence/%s.json' % pid, replay_cmd_template='./check %s --replay {path}' % pid,
                                engine='tlc', level_claimed=dict(category=c['category'], text=c['text'], design_ref=c['design_ref']),
                                level_note=c['note'], technique=c['technique']))
    json.dump(m, open(os.path.join(V, 'MANIFEST.json'), 'w'), indent=1)
    print('MANIFEST.json: %d checks, %d not_applicable' % (len(m['checks']), len(m['not_applicable'])))


if __name__ == '__main__':
    main()
