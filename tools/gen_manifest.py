#!/usr/bin/env python3
"""Writes /verif/MANIFEST.json from the table below (single source of truth for what is claimed)."""
import json, os, subprocess
V = os.path.dirname(os.path.dirname(os.path.abspath(__file__)))
ALL = ['C%02d' % i for i in range(1, 21)]

CHECKS = {
 'C09': dict(
   category='model_checking',
   text='Cache.tla states the cache semantics C09 requires; TLC checks the five C09 invariants exhaustively over all operation sequences '
        'to depth 3/4 with boundary lengths (0..70000 across the 16-bit boundary), limits and capacities; every transition of the bounded '
        'model is replayed on the real cache.Cache and seeded random sequences are recorded; every real operation is judged by TLC against '
        'the C09 predicates (CacheTrace.tla) from its own logged pre-state.',
   design_ref='DESIGN.md section 6 (C09)',
   note='Trusted: TLC, the Go recorder\'s projection of cache.Cache (exported fields), value abstraction to (id,length). Bounded: depth of the exhaustive part; random part is sampling.',
   technique='TLA+ spec (Cache.tla) model-checked with TLC; model-transition replay + trace validation of cache.Cache by TLC'),
}

NOT_YET = 'check not built yet in this round (planned: DESIGN.md section 6); not claimed until its machinery exists'


def main():
    hooks = subprocess.run(['git', '-C', '/repo', 'log', '--format=%h %s', '--grep=^verif:'], stdout=subprocess.PIPE, text=True).stdout.split('\n')
    m = dict(version=1,
             setup_cmd='./check --setup',
             hooks=dict(guard='verif (Go build tag)', enable='go build -tags verif (the harness module /verif/harness replaces the go-vise module with /repo)',
                        baseline_off_cmd='python3 /verif/tools/baseline.py', source_commits=[h.split()[0] for h in hooks if h.strip()], add_only=True),
             engines=[dict(name='tlc', path='/verif/spec', serves_properties=sorted(CHECKS), kind_free_text='TLA+ specifications checked with TLC 1.8 (exhaustive model checking, behaviour generation, trace validation)'),
                      dict(name='vh', path='/verif/harness', serves_properties=sorted(CHECKS), kind_free_text='Go harness built with -tags verif against /repo: recorders and replayers; never decides a property')],
             checks=[], notes='See DESIGN.md. Orchestrator: ./check <ID> [--tier quick|thorough] [--replay path] [--selftest]. known findings: known_findings.json',
             not_applicable=[])
    for pid in ALL:
        c = CHECKS.get(pid)
        if not c:
            m['not_applicable'].append(dict(property_id=pid, reason=NOT_YET))
            continue
        m['checks'].append(dict(property_id=pid, quick_cmd='./check %s --tier quick' % pid, thorough_cmd='./check %s --tier thorough' % pid,
                                evidence_file='/verif/evidence/%s.json' % pid, replay_cmd_template='./check %s --replay {path}' % pid,
                                engine='tlc', level_claimed=dict(category=c['category'], text=c['text'], design_ref=c['design_ref']),
                                level_note=c['note'], technique=c['technique']))
    json.dump(m, open(os.path.join(V, 'MANIFEST.json'), 'w'), indent=1)
    print('MANIFEST.json: %d checks, %d not_applicable' % (len(m['checks']), len(m['not_applicable'])))


if __name__ == '__main__':
    main()
