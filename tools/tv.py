#!/usr/bin/env python3
"""debug helper: validate a trace with a module/cfg and print a digest of each violating event.
usage: tv.py Module cfg trace.ndjson [max]"""
import sys, os, json
sys.path.insert(0, os.path.dirname(os.path.dirname(os.path.abspath(__file__))))
from vlib import core
mod, cfg, path = sys.argv[1:4]
mx = int(sys.argv[4]) if len(sys.argv) > 4 else 10
viol, st = core.validate_trace(mod, cfg, path)
print(st, len(viol), 'violations')
from collections import Counter
print(Counter(v[0] for v in viol))
def brief(s):
    return dict(path=s.get('path'), idx=s.get('idx'), flags=s.get('flags'), code=[(i['op'], i['a'], i['b'], i['n'], i['m']) for i in s.get('code', [])][:6],
                frames=s.get('c', {}).get('frames'), used=s.get('c', {}).get('used'), input=s.get('input'), mapped=s.get('mapped'), errp=s.get('errp'), lang=s.get('lang'))
seen = Counter()
for inv, idx, ev in viol:
    seen[inv] += 1
    if seen[inv] > mx: continue
    print('=====', inv, 'line', idx + 1, ev.get('ev'), ev.get('sid'), 'req', ev.get('req'), 'seq', ev.get('seq'), 'last', ev.get('last'), 'panic', ev.get('panic'))
    if ev.get('ev') == 'instr':
        print(' pre ', json.dumps(brief(ev['pre'])))
        print(' post', json.dumps(brief(ev['post'])))
        print(' ext ', json.dumps([(e['kind'], e['sym'], e['ok'], e['len'], e['set'], e['reset'], e['lang'], e['ctxlang']) for e in ev['ext']]))
    else:
        print(json.dumps({k: v for k, v in ev.items() if k not in ('pre', 'post', 'post2', 'saved', 'ext', 'fext')})[:600])
