#!/bin/sh
# re-evaluates every kept seeded change against the current checks (quick tier): tools/reseed.sh [pattern]
# MUT_FAST=1: only the checks are re-run (validity of each change as recorded when it was kept)
# each change is checked against the property it was written for (and the properties recorded as detecting it)
export GOFLAGS=-mod=mod GOPROXY=off GOSUMDB=off GOTOOLCHAIN=local
cd "$(dirname "$0")/.."
for d in seeded/${1:-C}*; do
  id=$(basename $d)
  pids=$(python3 -c "
import json,sys
m=json.load(open('$d/meta.json'))
p=[m['breaks']]+[x for x in m.get('detected_by',[]) if x!=m['breaks']]
print(' '.join(p[:2]))")
  python3 tools/mutant.py $d $id $pids 2>&1 | grep -e "^mutant" -e "check" | cut -c1-160
done
