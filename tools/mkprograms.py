#!/usr/bin/env python3
"""Writes the hand-made model programs (spec/programs/*.json), read by TLC (ViseMC) and by the Go harness."""
import json, os, re
OUT = os.path.join(os.path.dirname(os.path.dirname(os.path.abspath(__file__))), 'spec', 'programs')
SYM = re.compile(r'^[a-zA-Z0-9][a-zA-Z0-9_]+$')


def ac(t):
    if t in ('_', '>', '<', '^', '.'): return t
    if t == '_catch' or SYM.match(t): return 'sym'
    return 'bad'


def I(op, a='', b='', n=0, m=0):
    return dict(op=op, a=a, b=b, n=n, m=m, ac=ac(a))


def R(len=0, id='v', set=(), reset=(), err=False, lang='', content=''):
    return dict(len=len, id=id if len else '', set=list(set), reset=list(reset), err=err, lang=lang, content=content)


def prog(name, nodes, syms, inputs, flagcount=2, templates=None, outputsize=0, cachesize=0, language='', langsens=False, first=False, rempty=False):
    t = templates or {}
    p = dict(name=name, root='root', flagcount=flagcount, outputsize=outputsize, cachesize=cachesize, language=language, langsens=langsens,
             nodes=nodes, templates=t, syms=syms, inputs=inputs, engine=dict(first=first, rempty=rempty))
    json.dump(p, open(os.path.join(OUT, name + '.json'), 'w'), indent=1, sort_keys=True)


CATCH = [I('HALT'), I('INCMP', '_', '*')]

# nav: every target kind from MOVE, INCMP and CATCH; duplicated selectors; wildcard in the middle; lateral moves
prog('nav', {
    'root': [I('LOAD', 'aa', n=5), I('MAP', 'aa'), I('MOUT', 'x', '1'), I('HALT'),
             I('INCMP', 'foo', '1'), I('INCMP', 'bar', '2'), I('INCMP', 'bar', '1'), I('INCMP', 'qux', '3'), I('INCMP', '.', '4'),
             I('INCMP', 'foo', '2')],
    'foo': [I('LOAD', 'bb', n=0), I('CATCH', 'baz', n=8, m=1), I('HALT'),
            I('INCMP', '_', '0'), I('INCMP', 'baz', '1'), I('INCMP', '>', '2'), I('INCMP', '<', '3'), I('INCMP', 'bar', '4'),
            I('INCMP', '^', '*'), I('INCMP', 'baz', '0')],
    'bar': [I('RELOAD', 'aa'), I('LOAD', 'cc', n=3), I('HALT'), I('INCMP', '^', '1'), I('INCMP', '_', '*')],
    'baz': [I('LOAD', 'cc', n=3), I('CROAK', n=9, m=1), I('HALT'), I('INCMP', '_', '0'), I('INCMP', '^', '1'), I('INCMP', 'deep', '2')],
    'deep': [I('MAP', 'aa'), I('HALT'), I('INCMP', '_', '0'), I('INCMP', '^', '1'), I('INCMP', '.', '*')],
    'qux': [I('LOAD', 'dd', n=1)],
    '_catch': CATCH,
}, {
    'aa': [R(3, 'a'), R(0)],
    'bb': [R(4, 'b', set=[8, 3], reset=[4]), R(4, 'b')],
    'cc': [R(2, 'c', set=[9], reset=[8]), R(3, 'c')],
    'dd': [R(7, 'd')],
}, ['', '0', '1', '2', '3', '4', '9'],
    templates={'root': 'root {{.aa}}', 'bar': 'bar {{.aa}}', 'deep': 'deep {{.aa}}'})

# flags: CATCH/CROAK in both modes before and after HALT; external code touching reserved flags, TERMINATE, client flags
prog('flags', {
    'root': [I('LOAD', 'fa', n=0), I('CATCH', 'on8', n=8, m=1), I('CATCH', 'off9', n=9, m=0), I('HALT'),
             I('INCMP', 'tamper', '1'), I('INCMP', 'term', '2'), I('INCMP', 'croak', '3'), I('INCMP', '.', '4'), I('INCMP', 'rel', '5')],
    'on8': [I('LOAD', 'clr', n=0), I('HALT'), I('INCMP', '_', '*')],
    'off9': [I('LOAD', 'set9', n=0), I('HALT'), I('INCMP', '_', '*')],
    'tamper': [I('LOAD', 'evil', n=0), I('CATCH', 'on8', n=3, m=1), I('HALT'), I('INCMP', '_', '0'), I('INCMP', 'croak', '1'), I('INCMP', 'rel2', '2')],
    'term': [I('LOAD', 'kill', n=0), I('MAP', 'kill'), I('HALT'), I('INCMP', '_', '*')],
    'croak': [I('HALT'), I('INCMP', '_', '0'), I('CROAK', n=9, m=1), I('INCMP', '^', '1')],
    # CATCH with relative targets: up when 9 is set / rewind when 8 is set (the parent's code then runs from its start)
    'rel': [I('LOAD', 'set9', n=0), I('CATCH', '_', n=9, m=1), I('HALT'), I('INCMP', '_', '*')],
    'rel2': [I('LOAD', 'fb', n=0), I('CATCH', '^', n=8, m=1), I('CATCH', '.', n=3, m=1), I('HALT'), I('INCMP', '_', '*')],
    '_catch': CATCH,
}, {
    'fa': [R(1, 'f'), R(1, 'f', set=[8]), R(1, 'f', set=[9])],
    'fb': [R(1, 'g', set=[8]), R(1, 'g')],
    'clr': [R(1, 'c', reset=[8, 9])],
    'set9': [R(1, 's', set=[9])],
    'evil': [R(1, 'e', set=[0, 1, 2, 3, 4, 5, 8], reset=[4, 9]), R(1, 'e', reset=[0, 1, 2, 3, 4, 5])],
    'kill': [R(2, 'k', set=[6]), R(2, 'k')],
}, ['', '0', '1', '2', '3', '4', '9'])

# scope: LOAD / RELOAD / MAP at depths 1-3, repeated symbols, results empty / at limit / over limit / failing
prog('scope', {
    'root': [I('LOAD', 'aa', n=5), I('MAP', 'aa'), I('HALT'), I('INCMP', 'l1', '1'), I('INCMP', 'l1b', '2'), I('INCMP', '.', '3')],
    'l1': [I('LOAD', 'aa', n=5), I('LOAD', 'bb', n=3), I('MAP', 'bb'), I('HALT'),
           I('INCMP', 'l2', '1'), I('INCMP', '_', '0'), I('INCMP', '.', '3')],
    'l1b': [I('LOAD', 'bb', n=3), I('RELOAD', 'aa'), I('HALT'), I('INCMP', '_', '0'), I('INCMP', 'l2', '1')],
    'l2': [I('RELOAD', 'bb'), I('LOAD', 'cc', n=0), I('MAP', 'cc'), I('MAP', 'aa'), I('HALT'),
           I('INCMP', '_', '0'), I('INCMP', '^', '1'), I('INCMP', 'l3', '2')],
    'l3': [I('LOAD', 'ee', n=2), I('HALT'), I('INCMP', '_', '*')],
    '_catch': CATCH,
}, {
    'aa': [R(5, 'a'), R(0), R(3, 'A')],
    'bb': [R(3, 'b'), R(4, 'B'), R(0)],
    'cc': [R(9, 'c'), R(0)],
    'ee': [R(2, 'e'), R(0, err=True)],
}, ['', '0', '1', '2', '3'],
    templates={'root': 'root {{.aa}}', 'l1': 'l1 {{.bb}}', 'l1b': 'l1b {{.aa}}', 'l2': 'l2 {{.bb}} {{.cc}} {{.aa}}'})

# wideflags: 300 client flags - indices beyond 255 (several flag bytes) next to the low ones, in FlagSet/FlagReset and in CATCH/CROAK
prog('wideflags', {
    'root': [I('LOAD', 'wa', n=0), I('CATCH', 'hi', n=264, m=1), I('CATCH', 'lo', n=8, m=1), I('HALT'),
             I('INCMP', 'again', '1'), I('INCMP', '.', '2')],
    'hi': [I('LOAD', 'clr', n=0), I('HALT'), I('INCMP', '_', '*')],
    'lo': [I('LOAD', 'clr', n=0), I('HALT'), I('INCMP', '_', '*')],
    'again': [I('LOAD', 'wb', n=0), I('CROAK', n=300, m=1), I('HALT'), I('INCMP', '_', '*')],
    '_catch': CATCH,
}, {
    'wa': [R(1, 'a', set=[257]), R(1, 'a', set=[262]), R(1, 'a', set=[264]), R(1, 'a', set=[8]), R(1, 'a', set=[263, 256, 258, 259, 260, 261]), R(1, 'a')],
    'clr': [R(1, 'c', reset=[8, 264])],
    'wb': [R(1, 'b', set=[300]), R(1, 'b', reset=[44])],
}, ['', '1', '2', '0'], flagcount=300)

# ends: graceful end and termination at depth 1..3, restart afterwards, client flags kept
prog('ends', {
    'root': [I('LOAD', 'fa', n=0), I('HALT'), I('INCMP', 'mid', '1'), I('INCMP', 'bye', '2'), I('INCMP', 'die', '3')],
    'mid': [I('LOAD', 'mm', n=4), I('HALT'), I('INCMP', 'bye', '1'), I('INCMP', 'die', '2'), I('INCMP', 'deep', '3'), I('INCMP', '_', '0')],
    'deep': [I('HALT'), I('INCMP', 'bye', '1'), I('INCMP', 'die', '2'), I('INCMP', 'kill', '3')],
    'bye': [I('LOAD', 'last', n=0), I('HALT')],
    'die': [I('LOAD', 'last', n=0)],
    'kill': [I('LOAD', 'term', n=0), I('HALT'), I('INCMP', '_', '*')],
    '_catch': CATCH,
}, {
    'fa': [R(1, 'f', set=[8]), R(1, 'f', set=[9]), R(1, 'f')],
    'mm': [R(4, 'm')],
    'last': [R(3, 'z'), R(0)],            # the final value may be empty: nothing is appended then (not an older value)
    'term': [R(1, 't', set=[6])],
}, ['', '0', '1', '2', '3', '9'])

# lang: switching language with valid / invalid codes at several points
prog('lang', {
    'root': [I('LOAD', 'pick', n=0), I('MOUT', 'item', '1'), I('HALT'), I('INCMP', 'sub', '1'), I('INCMP', 'sw', '2'), I('INCMP', '.', '3')],
    'sub': [I('LOAD', 'txt', n=0), I('MAP', 'txt'), I('HALT'), I('INCMP', '_', '0'), I('INCMP', 'sw', '2')],
    'sw': [I('RELOAD', 'pick'), I('LOAD', 'txt', n=0), I('HALT'), I('INCMP', '_', '*')],
    '_catch': CATCH,
}, {
    'pick': [R(content='nor', len=3, id='#', set=[7], lang='nor'), R(content='fr', len=2, id='#', set=[7], lang='fra'),
             R(content='xx', len=2, id='x', set=[7], lang='BAD'), R(2, 'p')],
    'txt': [R(3, 't')],
}, ['', '0', '1', '2', '3'], templates={'sub': 'sub {{.txt}}'}, langsens=True)
# reenter: the entry node (and other nodes) re-entered BY NAME deeper in the stack, then rewound / popped
prog('reenter', {
    'root': [I('LOAD', 'aa', n=5), I('HALT'), I('INCMP', 'sub', '1'), I('INCMP', '^', '2'), I('INCMP', '_', '0')],
    'sub': [I('LOAD', 'bb', n=5), I('HALT'), I('INCMP', 'root', '1'), I('INCMP', '^', '2'), I('INCMP', '_', '0'), I('INCMP', 'leaf', '3')],
    'leaf': [I('HALT'), I('INCMP', 'sub', '1'), I('INCMP', '^', '2'), I('INCMP', '_', '0'), I('INCMP', 'root', '3')],
    '_catch': CATCH,
}, {
    'aa': [R(3, 'a')],
    'bb': [R(2, 'b')],
}, ['', '0', '1', '2', '3'])

# capacity: a small cache capacity; LOAD / RELOAD results that fit, exactly fill, and exceed what is left
prog('capacity', {
    'root': [I('LOAD', 'aa', n=0), I('MAP', 'aa'), I('HALT'), I('INCMP', 'again', '1'), I('INCMP', 'sub', '2'), I('INCMP', '.', '3')],
    'again': [I('RELOAD', 'aa'), I('HALT'), I('INCMP', '_', '0'), I('INCMP', '.', '1')],
    'sub': [I('LOAD', 'bb', n=0), I('RELOAD', 'aa'), I('HALT'), I('INCMP', '_', '0'), I('INCMP', 'again', '1')],
    '_catch': CATCH,
}, {
    'aa': [R(3, 'a'), R(9, 'A'), R(0), R(10, 'x')],
    'bb': [R(4, 'b'), R(7, 'B')],
}, ['', '0', '1', '2', '3'], templates={'root': 'root {{.aa}}', 'again': 'again {{.aa}}', 'sub': 'sub {{.aa}}'}, cachesize=10)

# pages: a paged sink walked with next / previous, then a graceful end whose exit value is appended to the last page
prog('pages', {
    'root': [I('LOAD', 'txt', n=0), I('MAP', 'txt'), I('MNEXT', 'next', '11'), I('MPREV', 'prev', '22'), I('MOUT', 'quit', '9'), I('HALT'),
             I('INCMP', '>', '11'), I('INCMP', '<', '22'), I('INCMP', 'bye', '9'), I('INCMP', 'sub', '1'), I('INCMP', '.', '*')],
    'sub': [I('LOAD', 'two', n=0), I('RELOAD', 'two'), I('MAP', 'two'), I('MNEXT', 'fwd', '11'), I('MPREV', 'back', '22'), I('HALT'),
            I('INCMP', '>', '11'), I('INCMP', '<', '22'), I('INCMP', '_', '0')],
    'bye': [I('LOAD', 'big', n=0), I('HALT')],
    '_catch': CATCH,
}, {
    'txt': [R(content='aaaaa\nbbbbbbb\n\ncccc\ndd\neeeeeeee\n', len=30, id='#'), R(content='aaaaaaaaa\nbbbbbbbbb\nccccccccc', len=29, id='#')],
    'two': [R(content='xx\nyyyyyyyyyyyy\nzz\n\n', len=20, id='#')],
    'big': [R(14, 'g'), R(2, 'g')],
}, ['', '0', '1', '11', '22', '9', '5'], templates={'root': 'R\n{{.txt}}', 'sub': 'S\n{{.two}}'}, outputsize=36)
# inline: second screens of a node reached WITHOUT a move (HALT / RELOAD / MAP / HALT), under an output size, with a sink and a sized value
prog('inline', {
    'root': [I('LOAD', 'txt', n=0), I('MAP', 'txt'), I('MOUT', 'ok', '1'), I('HALT'),
             I('RELOAD', 'txt'), I('MAP', 'txt'), I('MOUT', 'ok', '1'), I('HALT'), I('INCMP', 'sub', '1'), I('INCMP', '.', '*')],
    'sub': [I('LOAD', 'small', n=12), I('MAP', 'small'), I('HALT'), I('RELOAD', 'small'), I('MAP', 'small'), I('HALT'), I('INCMP', '_', '0')],
    '_catch': CATCH,
}, {
    'txt': [R(content='aaaa\nbbbbbbbb\ncccc\ndddddd\neeee', len=30, id='#'), R(content='aa\nbb', len=5, id='#')],
    'small': [R(3, 's'), R(12, 's')],
}, ['', '1', '0', '5'], templates={'root': 'R\n{{.txt}}', 'sub': 'S {{.small}} and some static text'}, outputsize=30)
# first: a pre-VM check function (engine.WithFirst) over a paged node and a sub node; the check may do nothing, set a client flag,
# leave a value, block the session (TERMINATE, with a message), or fail
prog('first', {
    'root': [I('LOAD', 'txt', n=0), I('MAP', 'txt'), I('MNEXT', 'next', '11'), I('MPREV', 'prev', '22'), I('HALT'),
             I('INCMP', '>', '11'), I('INCMP', '<', '22'), I('INCMP', 'sub', '1'), I('INCMP', 'bye', '9'), I('INCMP', '.', '*')],
    'sub': [I('LOAD', 'aa', n=4), I('MAP', 'aa'), I('CATCH', 'flagged', n=8, m=1), I('HALT'), I('INCMP', '_', '0'), I('INCMP', '.', '*')],
    'flagged': [I('HALT'), I('INCMP', '^', '*')],
    'bye': [I('HALT')],
    '_catch': CATCH,
}, {
    '_first': [R(0), R(2, 'f', set=[8]), R(3, 'f', set=[6]), R(0, err=True), R(1, 'f', reset=[8])],
    'txt': [R(content='aaaaaaaa\nbbbbbbbb\ncccccccc\ndddddddd\neeeeeeee\nffffffff', len=53, id='#')],
    'aa': [R(3, 'a')],
}, ['', '11', '22', '1', '0', '9'], templates={'root': 'R\n{{.txt}}', 'sub': 'sub {{.aa}}'}, outputsize=36, first=True)

# rempty: engine.Config.ResetOnEmptyInput - the empty input restarts the session wherever it is (also when it is blocked)
prog('rempty', {
    'root': [I('LOAD', 'aa', n=5), I('MAP', 'aa'), I('HALT'), I('INCMP', 'sub', '1'), I('INCMP', 'dead', '2'), I('INCMP', '.', '*')],
    'sub': [I('LOAD', 'bb', n=0), I('HALT'), I('INCMP', 'deep', '1'), I('INCMP', '_', '0')],
    'deep': [I('LOAD', 'cc', n=3), I('HALT'), I('INCMP', '^', '1'), I('INCMP', '_', '0')],
    'dead': [I('LOAD', 'cc', n=3)],
    '_catch': CATCH,
}, {
    'aa': [R(3, 'a'), R(0)],
    'bb': [R(4, 'b', set=[8]), R(4, 'b')],
    'cc': [R(2, 'c', set=[9], reset=[8])],
}, ['', '0', '1', '2', '7'], templates={'root': 'root {{.aa}}'}, rempty=True)
# msink: the MENU is the sink (MSINK) and is paged; afterwards a node without any menu and a node with an ordinary menu are shown
prog('msink', {
    'root': [I('MOUT', 'menu', '1'), I('MOUT', 'plain', '2'), I('HALT'), I('INCMP', 'msub', '1'), I('INCMP', 'plain', '2'), I('INCMP', '.', '*')],
    'msub': [I('MOUT', 'aaaa', '31'), I('MOUT', 'bbbbbb', '32'), I('MOUT', 'cc', '33'), I('MOUT', 'dddddd', '34'), I('MOUT', 'up', '0'), I('MSINK'),
             I('MNEXT', 'nx', '11'), I('MPREV', 'pv', '22'), I('HALT'), I('INCMP', '>', '11'), I('INCMP', '<', '22'), I('INCMP', '_', '0'), I('INCMP', 'plain', '9')],
    'plain': [I('LOAD', 'aa', n=4), I('MAP', 'aa'), I('HALT'), I('INCMP', '_', '0'), I('INCMP', '^', '*')],
    '_catch': CATCH,
}, {
    'aa': [R(3, 'a')],
}, ['', '1', '2', '11', '22', '0', '9'], templates={'root': 'root', 'msub': 'M', 'plain': 'plain {{.aa}}'}, outputsize=30)
print('programs written to', OUT)
