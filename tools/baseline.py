#!/usr/bin/env python3
"""Run the repository's baseline test suite (guard OFF by default) and compare with /root/.vp/BASELINE.json.
usage: baseline.py [--tags verif] [--repo /repo]
exit 0 iff every stable_pass test passes."""
import json, os, shutil, subprocess, sys, tempfile
repo = '/repo'; tags = None
a = sys.argv[1:]
while a:
    x = a.pop(0)
    if x == '--tags': tags = a.pop(0)
    elif x == '--repo': repo = a.pop(0)
# (the suite's own tests leave vise_testdata_* / vise-db-* directories behind: they get a temporary directory of their own)
tmp = tempfile.mkdtemp(prefix='verif-baseline-')
env = dict(os.environ, GOFLAGS='-mod=mod', GOPROXY='off', GOSUMDB='off', GOTOOLCHAIN='local', TMPDIR=tmp)
cmd = ['go', 'test', '-json', '-vet=off', '-count=1', '-timeout', '25m']
if tags: cmd += ['-tags', tags]
cmd += ['./...']
try:
    p = subprocess.run(cmd, cwd=repo, env=env, stdout=subprocess.PIPE, stderr=subprocess.DEVNULL, text=True)
finally:
    shutil.rmtree(tmp, ignore_errors=True)
passed = set(); failed = set()
for line in p.stdout.splitlines():
    try: ev = json.loads(line)
    except Exception: continue
    if ev.get('Test') and ev.get('Action') in ('pass', 'fail'):
        name = ev['Package'] + '::' + ev['Test']
        (passed if ev['Action'] == 'pass' else failed).add(name)
want = set(json.load(open('/root/.vp/BASELINE.json'))['stable_pass'])
missing = sorted(want - passed)
print('baseline: %d/%d stable tests pass; %d other failures' % (len(want & passed), len(want), len(failed - want)))
for m in missing[:40]: print('  NOT PASSING:', m)
sys.exit(0 if not missing else 1)
