#!/bin/sh
# usage: seedsweep.sh "<ids>" "<seeds>" [tier] : run checks with several seeds, print one line each
ids="$1"; seeds="$2"; tier="${3:-quick}"
for s in $seeds; do for id in $ids; do
  out=$(VERIF_SEED=$s ./check $id --tier $tier 2>&1); rc=$?
  echo "seed=$s $id rc=$rc $(echo "$out" | tail -1)"
  if [ $rc -ne 0 ]; then echo "$out" | grep -A2 -e VIOLATION -e INFRA | cut -c1-700 | head -12; fi
done; done
