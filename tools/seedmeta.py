#!/usr/bin/env python3
"""Annotations (what / needs / history) of the seeded mutants, merged into seeded/<id>/meta.json (mutant.py keeps them on re-runs)."""
import json, os
V = os.path.dirname(os.path.dirname(os.path.abspath(__file__)))
A = {
 'C01b-sizer-counts-runes': dict(
    what='render/size.go: the sizer measures content in runes (utf8.RuneCountInString) instead of bytes',
    needs='multi-byte UTF-8 content near the output size',
    history='initially MISSED (all generated content was ASCII). Fixed by: every third enumerated/random render case uses 2-byte characters in rows, template and values; Render.tla lengths stay byte lengths'),
 'C02b-sizer-set-skips-reregistration': dict(
    what='render/size.go Sizer.Set: a symbol that is already registered is not registered again, so the sink slot is not re-claimed after Reset',
    needs='one long-lived Page object showing a node with sink A, then a node with another sink, then A again',
    history='initially caught only by C07 (long-lived vs per-request pages differ). C02 itself MISSED it (fresh Page per page index). Fixed by: engine-level walks (walk-run): a client walks a paged node with "next", visits a second paged node, returns and walks again, in long-lived and per-request mode; Partition/Nav/Static/NoFail judged by TLC on each walk'),
 'C03b-prerender-consumes-error-prefix': dict(
    what='vm/runner.go: the pre-render size probe consumes the pending error prefix, so the "message" of an invalid input never reaches the client',
    needs='an input matching no selector on a node that renders',
    history='initially MISSED (C03 judged flags and position only, not the page). Fixed by: C03_MessageShown (a request whose run ended by the invalid-input fallback shows the error prefix in its output) + the recorder logs the flushed output'),
 'C04b-up-resets-index-only-after-lateral': dict(
    what='state/state.go Up: the page index is reset only if the lateral counter says the node was browsed in this process',
    needs='persisted operation: browse, save, load, go up',
    history='initially MISSED in the quick tier (quick ran long-lived mode only). Fixed by: quick tier of C03-C06 runs both modes (L and P)'),
 'C05b-update-writes-top-frame': dict(
    what='cache/cache.go Update: writes the new value into the top frame instead of the frame that owns the symbol',
    needs='RELOAD of a symbol loaded in a lower frame', history='caught at once (C05_ScopeOnReload / Cache refinement, also C09 accounting)'),
 'C06b-catch-fetches-literal-relative-target': dict(
    what='vm/runner.go runCatch: fetches bytecode for the literal target string before resolving relative targets ("_", "<", ...)',
    needs='CATCH with a relative target that fires',
    history='initially MISSED (no model program had a relative CATCH target; the trace spec did not demand that the code lookups of a step are the expected ones). Fixed by: nodes rel/rel2 in the "flags" program, Step.s.bad = "" /\\ Step.s.ext = <<>> in C06_Ctl/C03_Step (all logged lookups are the lookups the spec step asks), C04_Code'),
 'C07b-ctx-language-before-init': dict(
    what='engine/db.go: the context language is taken before the persisted state is loaded (one request late after a resume)',
    needs='persisted mode + a language-sensitive resource',
    history='initially MISSED by C07 (recorder resource ignored the context language). Fixed by: language-sensitive recorder resource ("~lang" suffix on external results, "[lang] " prefix on templates) for programs marked langsens, program "lang" in the C07 pair stage'),
 'C08b-restart-before-unwind': dict(
    what='engine/db.go: after a graceful end the entry code is injected before the path is unwound', needs='graceful end then next request',
    history='caught at once (C08_ReqRestart / Drift-free request invariants)'),
 'C09b-reset-forgets-limits': dict(
    what='cache/cache.go Reset: clears the per-symbol size limits along with the values', needs='Reset then Update beyond the declared size',
    history='caught at once (CacheTrace refinement after TLC-generated operation sequences containing Reset)'),
 'C10b-mem-get-empty-translation-falls-back': dict(
    what='db/mem Get: an EMPTY translated value is treated as missing and the untranslated value is returned',
    needs='a translatable entry whose translated value is the empty string',
    history='initially MISSED (no empty values in KV sequences). Fixed by: Put of "" in KvMC and the random driver'),
 'C11b-fromsessionkey-cut-anywhere': dict(
    history='caught at once (C11_NoCrossList on fs listings; C10 DumpOnce)',
    what='db/db.go FromSessionKey: bytes.Cut finds the session id anywhere in the stored key, not only as its prefix',
    needs='Dump/DecodeKey with two sessions where one id occurs inside the other session\'s stored key'),
 'C12b-fs-put-unlinks-first': dict(
    history='caught at once (kill before the create of the temp file: record MISSING, silent restart)',
    what='db/fs Put: removes the destination before the write-then-rename', needs='crash between unlink and rename of a session that already has a record'),
 'C13b-start-sets-multi-before-begin': dict(
    history='caught at once (C13_EndedOnce on TLC behaviours with a begin fault)',
    what='db/postgres Start: sets multi before BeginTx, so a begin fault leaves the store in multi mode with no transaction',
    needs='driver fault on the BeginTx of Start, then further operations'),
 'C14b-disasm-load-size-16bit': dict(
    history='caught at once (C14_Listing on TLC-enumerated instructions with 3- and 4-byte sizes)',
    what='vm/debug.go: the disassembler prints the LOAD size as uint16', needs='LOAD with size >= 65536, compared as disassembly text'),
 'C15b-parseall-drops-trailing-byte': dict(
    history='caught at once (C15_NoSilentAccept on the TLC-enumerated 3-byte strings)',
    what='vm/debug.go ParseAll: stops when fewer than 2 bytes remain, silently accepting one trailing byte', needs='valid program + exactly one stray byte given to the disassembler'),
 'C16b-menu-down-inherits-opcode': dict(
    history='caught at once (C16_Fidelity on TLC-enumerated batch suffixes)',
    what='asm/menu.go ToLines: a DOWN line after NEXT/PREVIOUS in the same batch inherits MNEXT/MPREV as its display opcode', needs='batch order NEXT/PREVIOUS before DOWN'),
 'C17b-setinput-records-before-check': dict(
    history='caught at once (C17_AsIfNeverSent on paired runs with an over-long first input)',
    what='state/state.go SetInput: records the input before the length check; engine init then fails restoring the stale over-long input',
    needs='long-lived engine without persister, over-long FIRST input, then acceptable inputs'),
 'C18b-ctx-language-not-refreshed-in-run': dict(
    history='caught at once (C18_ExecLookups on model histories of program lang)',
    what='vm/runner.go Run: the context language is not replaced when the context already carries one, so LOADs after a language switch in the same run use the old language',
    needs='session that already has a language, switch, and a language-dependent LOAD in the same run'),
 'C19b-fs-temp-name-per-process': dict(
    what='db/fs writeFileAtomic: temp file named by pid, shared by all handles of the process', needs='two sessions saving to the same directory with overlapping Puts'),
 'C20b-render-keeps-dirty-on-failure': dict(
    what='vm/runner.go Render: DIRTY is cleared only after a successful render; persisted DIRTY makes a blocked session render',
    needs='abnormal termination whose own page fails to render, then further requests in persisted mode',
    history='initially MISSED although C20_Blocked fired: the matcher of KF-blocked-output-after-failed-terminating-request excused ANY blocked request that started with DIRTY set. Fixed by: the matcher now requires what the finding says - the request that terminated the session returned an error from Exec'),
}
for sid, a in A.items():
    mp = os.path.join(V, 'seeded', sid, 'meta.json')
    if not os.path.exists(mp):
        continue
    m = json.load(open(mp))
    for k, v in a.items():
        if k == 'history' and m.get('history') and m['history'] != v and not v:
            continue
        m[k] = v
    m.setdefault('produced_by', 'fresh sub-agent given only the property text and a scratch worktree')
    m.setdefault('ran', 'tools/mutant.py (scratch worktree: patch applies, builds with/without tag, baseline 256/256, demo fails with / passes without, checks via VERIF_REPO)')
    json.dump(m, open(mp, 'w'), indent=1, sort_keys=True)
    print('annotated', sid)
