#!/usr/bin/env python3
"""Annotations (what / needs / history) of the seeded mutants, merged into seeded/<id>/meta.json (mutant.py keeps them on re-runs)."""
import json, os
V = os.path.dirname(os.path.dirname(os.path.abspath(__file__)))
A = {
 'C01b-sizer-counts-runes': dict(
    what='render/size.go: the sizer measures content in runes (utf8.RuneCountInString) instead of bytes',
    needs='multi-byte UTF-8 content near the output size',
    history='initially MISSED (all generated content was ASCII). Fixed by: every third enumerated/random render case uses 2-byte characters in rows, template and values; Render.tla lengths stay byte lengths'),
 'C02b-sizer-set-skips-reregistration': dict(
    what='render/size.go Sizer.Set: a symbol that is already registered is not registered again, so the sink slot is not re-claimed after Reset',
    needs='one long-lived Page object showing a node with sink A, then a node with another sink, then A again',
    history='initially caught only by C07 (long-lived vs per-request pages differ). C02 itself MISSED it (fresh Page per page index). Fixed by: engine-level walks (walk-run): a client walks a paged node with "next", visits a second paged node, returns and walks again, in long-lived and per-request mode; Partition/Nav/Static/NoFail judged by TLC on each walk'),
 'C03b-prerender-consumes-error-prefix': dict(
    what='vm/runner.go: the pre-render size probe consumes the pending error prefix, so the "message" of an invalid input never reaches the client',
    needs='an input matching no selector on a node that renders',
    history='initially MISSED (C03 judged flags and position only, not the page). Fixed by: C03_MessageShown (a request whose run ended by the invalid-input fallback shows the error prefix in its output) + the recorder logs the flushed output'),
 'C04b-up-resets-index-only-after-lateral': dict(
    what='state/state.go Up: the page index is reset only if the lateral counter says the node was browsed in this process',
    needs='persisted operation: browse, save, load, go up',
    history='initially MISSED in the quick tier (quick ran long-lived mode only). Fixed by: quick tier of C03-C06 runs both modes (L and P)'),
 'C05b-update-writes-top-frame': dict(
    what='cache/cache.go Update: writes the new value into the top frame instead of the frame that owns the symbol',
    needs='RELOAD of a symbol loaded in a lower frame', history='caught at once (C05_ScopeOnReload / Cache refinement, also C09 accounting)'),
 'C06b-catch-fetches-literal-relative-target': dict(
    what='vm/runner.go runCatch: fetches bytecode for the literal target string before resolving relative targets ("_", "<", ...)',
    needs='CATCH with a relative target that fires',
    history='initially MISSED (no model program had a relative CATCH target; the trace spec did not demand that the code lookups of a step are the expected ones). Fixed by: nodes rel/rel2 in the "flags" program, Step.s.bad = "" /\\ Step.s.ext = <<>> in C06_Ctl/C03_Step (all logged lookups are the lookups the spec step asks), C04_Code'),
 'C07b-ctx-language-before-init': dict(
    what='engine/db.go: the context language is taken before the persisted state is loaded (one request late after a resume)',
    needs='persisted mode + a language-sensitive resource',
    history='initially MISSED by C07 (recorder resource ignored the context language). Fixed by: language-sensitive recorder resource ("~lang" suffix on external results, "[lang] " prefix on templates) for programs marked langsens, program "lang" in the C07 pair stage'),
 'C08b-restart-before-unwind': dict(
    what='engine/db.go: after a graceful end the entry code is injected before the path is unwound', needs='graceful end then next request',
    history='caught at once (C08_ReqRestart / Drift-free request invariants)'),
 'C09b-reset-forgets-limits': dict(
    what='cache/cache.go Reset: clears the per-symbol size limits along with the values', needs='Reset then Update beyond the declared size',
    history='caught at once (CacheTrace refinement after TLC-generated operation sequences containing Reset)'),
 'C10b-mem-get-empty-translation-falls-back': dict(
    what='db/mem Get: an EMPTY translated value is treated as missing and the untranslated value is returned',
    needs='a translatable entry whose translated value is the empty string',
    history='initially MISSED (no empty values in KV sequences). Fixed by: Put of "" in KvMC and the random driver'),
 'C11b-fromsessionkey-cut-anywhere': dict(
    history='caught at once (C11_NoCrossList on fs listings; C10 DumpOnce)',
    what='db/db.go FromSessionKey: bytes.Cut finds the session id anywhere in the stored key, not only as its prefix',
    needs='Dump/DecodeKey with two sessions where one id occurs inside the other session\'s stored key'),
 'C12b-fs-put-unlinks-first': dict(
    history='caught at once (kill before the create of the temp file: record MISSING, silent restart)',
    what='db/fs Put: removes the destination before the write-then-rename', needs='crash between unlink and rename of a session that already has a record'),
 'C13b-start-sets-multi-before-begin': dict(
    history='caught at once (C13_EndedOnce on TLC behaviours with a begin fault)',
    what='db/postgres Start: sets multi before BeginTx, so a begin fault leaves the store in multi mode with no transaction',
    needs='driver fault on the BeginTx of Start, then further operations'),
 'C14b-disasm-load-size-16bit': dict(
    history='caught at once (C14_Listing on TLC-enumerated instructions with 3- and 4-byte sizes)',
    what='vm/debug.go: the disassembler prints the LOAD size as uint16', needs='LOAD with size >= 65536, compared as disassembly text'),
 'C15b-parseall-drops-trailing-byte': dict(
    history='caught at once (C15_NoSilentAccept on the TLC-enumerated 3-byte strings)',
    what='vm/debug.go ParseAll: stops when fewer than 2 bytes remain, silently accepting one trailing byte', needs='valid program + exactly one stray byte given to the disassembler'),
 'C16b-menu-down-inherits-opcode': dict(
    history='caught at once (C16_Fidelity on TLC-enumerated batch suffixes)',
    what='asm/menu.go ToLines: a DOWN line after NEXT/PREVIOUS in the same batch inherits MNEXT/MPREV as its display opcode', needs='batch order NEXT/PREVIOUS before DOWN'),
 'C17b-setinput-records-before-check': dict(
    history='caught at once (C17_AsIfNeverSent on paired runs with an over-long first input)',
    what='state/state.go SetInput: records the input before the length check; engine init then fails restoring the stale over-long input',
    needs='long-lived engine without persister, over-long FIRST input, then acceptable inputs'),
 'C18b-ctx-language-not-refreshed-in-run': dict(
    history='caught at once (C18_ExecLookups on model histories of program lang)',
    what='vm/runner.go Run: the context language is not replaced when the context already carries one, so LOADs after a language switch in the same run use the old language',
    needs='session that already has a language, switch, and a language-dependent LOAD in the same run'),
 'C19b-fs-temp-name-per-process': dict(
    what='db/fs writeFileAtomic: temp file named by pid, shared by all handles of the process', needs='two sessions saving to the same directory with overlapping Puts'),
 'C20b-render-keeps-dirty-on-failure': dict(
    what='vm/runner.go Render: DIRTY is cleared only after a successful render; persisted DIRTY makes a blocked session render',
    needs='abnormal termination whose own page fails to render, then further requests in persisted mode',
    history='initially MISSED although C20_Blocked fired: the matcher of KF-blocked-output-after-failed-terminating-request excused ANY blocked request that started with DIRTY set. Fixed by: the matcher now requires what the finding says - the request that terminated the session returned an error from Exec'),
 # ---- round 3
 'C01c-newvm-page-without-sizer': dict(
    what='vm/runner.go NewVm: the first Page of a new Vm has no sizer (Reset() no longer called in the constructor)',
    needs='persisted operation resumed after a HALT, and a render reached WITHOUT a move (HALT / RELOAD / MAP / HALT)',
    history='initially MISSED (every second screen of the model and random programs was reached through INCMP/MOVE, which resets the page). Fixed by: model program "inline" and second screens without a move in the generator'),
 'C02c-menu-sizes-in-runes': dict(
    what='render/menu.go Sizes: next/previous entries measured in runes while everything else is measured in bytes',
    needs='non-ASCII browse labels at least 3 bytes longer than their rune count',
    history='initially MISSED (labels were ASCII also in the multi-byte configurations). Fixed by: labels of the UTF-8 configurations are multi-byte too'),
 'C03c-empty-input-not-recorded': dict(
    what='engine/db.go Exec/init: an empty input is no longer recorded in the state; INCMP compares the previous input',
    needs='long-lived engine, empty input after a non-empty one',
    history='initially MISSED (instruction events are judged from the logged pre-state, which already held the wrong input; the request-level prediction was only in C20). Fixed by: C03_RoutedInput and C04_ReqNav at request level'),
 'C04c-reload-of-sink-resets-index': dict(
    what='vm/runner.go runReload: RELOAD of a sink symbol resets the page index',
    needs='a node that RELOADs its sink symbol, browsed with > / <',
    history='initially MISSED (no program browsed a node with a RELOAD of the sink; C04 did not include the paged program). Fixed by: RELOAD in node sub of program "pages", "pages" added to C04'),
 'C05c-rewind-resets-cache-to-frame0': dict(
    what='vm/runner.go Rewind: one ca.Reset() instead of a Pop per level (drops the top node frame too)', needs='symbols loaded at the top node, descend, then ^',
    history='caught at once (C05_Scope)'),
 'C06c-flag-index-truncated-mod-256': dict(
    what='state/flag.go: byte index computed from uint8(bitIndex): flags >= 256 alias flag mod 256', needs='more than 248 client flags and an index >= 256',
    history='initially MISSED (2-4 client flags everywhere). Fixed by: model program "wideflags" (300 flags), wide flag sets in the generator'),
 'C07c-render-keeps-dirty-long-lived-wedges': dict(
    what='vm/runner.go Render: DIRTY cleared only after a successful render; a long-lived engine then re-flushes and fails in every later Exec',
    needs='a page that fails to render while Exec said continue, then another input', history='caught at once (C07_Equiv on program pages)'),
 'C08c-errcheck-invalidates-state': dict(
    what='vm/runner.go runErrCheck: invalidates the state on a non-LOADFAIL error; Persister.Save then panics', needs='persister + an instruction error',
    history='caught at once (C08_ReqNoPanic, mode P)'),
 'C09c-add-registers-limit-before-checks': dict(
    what='cache/cache.go Add: registers the size limit before the duplicate / capacity checks', needs='rejected Add with another limit, then Update',
    history='caught at once (C09_RejectedNoop; first by the new inductive-step stage)'),
 'C10c-fromsessionkey-trimleft': dict(
    what='db/db.go FromSessionKey: bytes.TrimLeft with the session prefix as cutset', needs='Dump with a key whose first characters occur in the session id',
    history='caught at once (C10_DumpComplete)'),
 'C11c-fs-fixed-temp-name': dict(
    what='db/fs writeFileAtomic: one fixed scratch file .tmp per directory', needs='two Puts in flight at once in one directory',
    history='initially MISSED by C11 (no concurrent stage; C19 caught it). Fixed by: kv-conc (sessions working at the same time on one fs directory, own handles) judged by C11_ConcOwnData, and FsSaveConc.tla (every interleaving of two recorded saves) in C19'),
 'C12c-fs-get-trims-line-endings': dict(
    what='db/fs Get: trims trailing line endings of every non-BIN value (also of CBOR state records)', needs='a stored value ending in \\n or \\r',
    history='not a crash-atomicity change (the agent says so): C12 does not see it; caught at once by C10 (C10_Result on values ending in a line feed)'),
 'C13c-get-scan-error-leaves-tx': dict(
    what='db/postgres Get: no Abort on the Scan error path', needs='row-fetch fault during Get', history='caught at once (C13_EndedOnce with a scan fault)'),
 'C14c-instructionsplit-255-wraps': dict(
    what='vm/vm.go instructionSplit: sz+1 in uint8 wraps for 255-byte symbols', needs='a 255-byte symbol', history='caught at once (C14_DecodesBack on the enumerated 255-byte symbol)'),
 'C15c-incmp-decode-error-dropped-after-match': dict(
    what='vm/runner.go runInCmp: the decode error of a malformed INCMP is dropped when an earlier INCMP already matched',
    needs='malformed INCMP reached after a matching INCMP',
    history='initially MISSED (Run was only required to reject a malformed FIRST instruction: a later one may legitimately never be reached). Fixed by: the hook logs the pending code at every instruction boundary and C15_RunDecodes demands that a run that reports success never stood before a malformed instruction; mutated programs get a matching / wildcard / non-matching INCMP in front'),
 'C16c-menuadd-alpha-selector-lost': dict(
    what='asm/asm.go MenuAdd: DOWN with a non-numeric selector keeps the target as selector', needs='DOWN sym <alphabetic selector> label',
    history='caught at once (C16_Fidelity)'),
 'C17c-input-pattern-unanchored': dict(
    what='vm/input.go: input pattern without ".*$" - inputs with a line feed after a valid first character are accepted', needs='input like "1\\n"',
    history='initially MISSED (no refused input started with an acceptable character). Fixed by: refused inputs with embedded line feeds in the model histories and the insert pairs'),
 'C18c-dbresource-caches-static-handler': dict(
    what='resource/db.go DbFuncFor: caches the resolved handler of a static symbol, ignoring the language', needs='same resource object, same static symbol, another language',
    history='initially MISSED - and exposed that the static-symbol part of the language stage was VACUOUS (DbResource built without DATATYPE_STATICLOAD: the node never rendered). Fixed by: static loads enabled, anti-vacuity guard, a mode with one resource object kept for all sessions'),
 'C19c-shared-invalid-input-error': dict(
    what='vm/input.go NewInvalidInputError: returns one shared error object', needs='two sessions on the catch page at the same time', history='caught at once (race detector + transcripts)'),
 'C20c-lastvalue-kept-on-empty-add': dict(
    what='cache/cache.go Add: LastValue not updated by an empty value; the final output appends an older value', needs='last LOAD before the end returns empty content',
    history='initially MISSED (the content of the final output was not compared). Fixed by: C20_ExitValue (the value the engine sets aside, read from the engine object, equals the specification\'s) and an empty alternative for the last symbol of program "ends"'),
 # ---- round 4
 'C01d-sizer-limit-in-uint16': dict(what='render/size.go: Sizer.outputSize stored as uint16 (a limit that is a multiple of 65536 becomes "no limit")', needs='OutputSize 65536 and a page longer than that',
    history='initially MISSED (sizes up to 300). Fixed by: random render configurations with sizes at and beyond the 16-bit boundary and rows of 15-45 kB'),
 'C02d-page-reset-keeps-cursors-without-sink': dict(what='render/page.go Reset: the sizer (pagination cursors) is reset only if the page had a mapped sink', needs='long-lived engine: a sink-less page, then straight to a menu-sink (MSINK) node with several pages',
    history='initially MISSED (no MSINK node at engine level; then: a sink page in between cleaned the cursors). Fixed by: walks go plain node -> menu-sink node -> plain node'),
 'C03d-rewind-tests-top-after-step': dict(what='vm/runner.go Rewind: tests "at the top?" after the step instead of before', needs='^ executed at depth 0', history='caught at once (C03_Step, C04_Nav)'),
 'C04d-state-fields-omitempty': dict(what='state/state.go: cbor omitempty on ExecPath and SizeIdx (a stored zero no longer overwrites what the State object holds)', needs='one unflushed Persister serving session X at index > 0, then stored session Y at index 0',
    history='initially MISSED (kept persisters were only exercised WithFlush). Fixed by: kept unflushed persister for sessions the store already has, reuse pairs over TLC histories of the model programs (C07_Reuse); C04 itself has no persister-reuse stage'),
 'C05d-first-pushes-frame-before-blocked-return': dict(what='engine/db.go runFirst: cache frame pushed before the early return for a blocked session', needs='pre-VM check + blocked session + restart (ResetOnEmptyInput)',
    history='caught at once by C08 (C08_ReqLevels) and C20 (C20_Blocked: a blocked request changes the session); C05 does not see it (instruction-level judgement starts from the logged cache, which already has the extra frame)'),
 'C06d-croak-sets-terminate-itself': dict(what='vm/runner.go runCroak: sets TERMINATE itself (also while input is being handled)', needs='CROAK that fires after an unmatched INCMP', history='caught at once (C06_Flags)'),
 'C07d-page-extra-survives-reset': dict(what='render/page.go Reset: the template suffix of a menu-sink page ("\\n{{._menu}}") is not cleared', needs='long-lived engine: MSINK node, then a node without any menu',
    history='initially MISSED (no MSINK at engine level). Fixed by: model program msink (paged menu sink, plain node), MSINK in the generator'),
 'C08d-getat-bound-off-by-one': dict(what='render/size.go GetAt: idx > len instead of idx >= len', needs='next on the last page of a paged node', history='caught at once (C08_ReqNoPanic)'),
 'C09d-pop-sums-frame-in-uint16': dict(what='cache/cache.go Pop: frame bytes summed in a uint16', needs='frame holding >= 65536 bytes', history='caught at once (C09_Consistent, inductive-step stage)'),
 'C10d-seal-with-false-unlocks-for-good': dict(what='db/db.go SetLock(0, false): unlocks the read-only types and seals that', needs='seal issued with lock=false, then a Put to a read-only type', history='caught at once (C10_Result)'),
 'C11d-serialize-into-kept-buffer': dict(what='persist Serialize: encodes into a buffer kept in the Persister and returns it', needs='memory backend keeping the caller slice',
    history='NEUTRALISED before evaluation: its only manifestation was the aliasing of the memory backend (Put kept the caller slice), which the strengthened KV driver found in the ORIGINAL code and which is repaired (a797238); with the repair the demonstration passes'),
 'C12d-flush-persister-not-repointed-after-first-save': dict(what='engine/db.go ensurePersist: the persister is not re-pointed at the engine state after the first Save of a new session (WithFlush)', needs='flush persister + new session',
    history='not a crash-atomicity change (the record is wrong after a COMPLETED save): C12 does not see it; caught at once by C07 (C07_Reuse)'),
 'C13d-close-masks-commit-error': dict(what='db/postgres Close: a commit error of the open explicit transaction is dropped', needs='multi mode, Close with a failing commit',
    history='initially MISSED (Close was not an operation of PgTx.tla). Fixed by: OpClose in the model, the exhaustive behaviours and the random driver'),
 'C14d-intsplit-three-byte-width-misaligned': dict(what='vm/vm.go intSplit: 3-byte integers left-aligned', needs='value 65536..16777215', history='caught at once (C14_DecodesBack)'),
 'C15d-catch-mode-byte-unguarded': dict(what='vm/vm.go parseSymSig: match-mode byte read unguarded', needs='CATCH cut right before the mode byte', history='caught at once (C15_NoPanic)'),
 'C16d-pooled-buffer-keeps-rejected-instruction': dict(what='asm/asm.go: per-instruction buffer from a sync.Pool, returned unflushed on error paths', needs='a rejected Parse call (over-long symbol in a 2-argument instruction), then a valid one in the same process',
    history='initially MISSED (every case was assembled on its own, no rejected source before it). Fixed by: every third case is preceded by a source the assembler refuses half way through an instruction'),
 'C17d-initd-set-before-init-completes': dict(what='engine/db.go init: initd set before init has completed', needs='long-lived engine, over-long FIRST input', history='caught at once (C17_AsIfNeverSent)'),
 'C18d-init-no-language-for-first': dict(what='engine/db.go init: the session language is not put on the context of the pre-VM check', needs='pre-VM check + resumed session with a language', history='caught at once (C18_ExecLookups on a random program with a check)'),
 'C19d-shared-catch-code-line': dict(what='vm/runner.go: one package-level MOVE _catch line with spare capacity; fetched catch code is appended into it', needs='a _catch node of at most 7 bytes, two sessions',
    history='initially MISSED (catch nodes of 8 bytes and more). Fixed by: 6-byte catch nodes (HALT / MOVE ^, as in examples/http) in half of the generated race programs'),
 'C20d-ignored-incmp-sets-readin': dict(what='vm/runner.go runInCmp: an ignored INCMP sets READIN again', needs='end node without HALT chosen by a non-final selector', history='caught at once (C20_Outcome, C03_Step)'),
 # ---- round 5
 'C01e-page-reset-drops-sizer': dict(what='render/page.go Reset: drops the sizer; vm.Run resets the page after a HALT without re-attaching it', needs='second screen of a node reached without a move', history='caught at once (C01_FlushFits on program inline)'),
 'C02e-vm-reset-reuses-menu': dict(what='vm/runner.go Reset: reuses the Menu object (page count, browse state survive) instead of a new one', needs='long-lived engine, paged content, next', history='caught at once (C02 walks)'),
 'C03e-down-keeps-page-index': dict(what='state/state.go Down: no longer resets the page index', needs='descend from page >= 1 of a paged node', history='caught at once (C03_Step, C04_Nav)'),
 'C04e-first-restores-index-only-below-entry': dict(what='engine/db.go runFirst: page index restored only if depth > 0', needs='pre-VM check, persisted, paged ENTRY node', history='caught at once (C04_ReqNav on program first)'),
 'C05e-deserialize-empties-maps-in-place': dict(what='persist Deserialize: empties the frame maps in place (frames behind the slice end survive)', needs='kept persister with a pop / flush in between, second session',
    history='caught at once by C07 (C07_ReuseConsistent); C05 has no kept-persister stage'),
 'C06e-terminate-read-once-per-run': dict(what='vm/runner.go Run: TERMINATE read once before the loop', needs='external code sets TERMINATE mid-run, instructions follow', history='caught at once (C06_Blocked)'),
 'C07e-flush-persister-not-repointed': dict(what='engine/db.go ensurePersist: same line as C12d removed (found independently)', needs='flush persister + new session', history='caught at once (C07_Reuse)'),
 'C08e-rewind-one-reset': dict(what='vm/runner.go Rewind: ca.Reset() once instead of Pop per level (same idea as C05c, found independently)', needs='^ from below the top node', history='caught at once (C08_Levels)'),
 'C09e-frameof-empty-value-not-defined': dict(what='cache/cache.go frameOf: m[key] != "" instead of comma-ok', needs='a symbol holding the empty value', history='caught at once (C09_Consistent, inductive step)'),
 'C10e-fs-binary-keys-unpadded-base64': dict(what='db/fs ToKey (binary mode): RawStdEncoding, DecodeKey still StdEncoding', needs='binary-key mode, Dump, key length not a multiple of 3', history='caught at once (C10_DumpComplete on fsbin)'),
 'C11e-omitempty-lastvalue-code-language': dict(what='cbor omitempty on Cache.LastValue, State.Code, State.Language', needs='unflushed kept persister, second stored session with those fields empty',
    history='caught at once by C07 (C07_Reuse); C11 (storage backends) does not see it'),
 'C12e-cbor-decoder-limits-16': dict(what='persist Deserialize: decoder limited to 16 array elements / map pairs', needs='session more than 16 levels deep (or > 16 symbols)',
    history='initially MISSED by C12 (sessions at most 8 levels deep; C08 caught it: C08_Resumable). Fixed by: the crash-atomicity session is first taken 17 levels deep (18 scopes, 35 symbols) and a fresh process must find it complete'),
 'C13e-abort-keeps-handle-when-rollback-fails': dict(what='db/postgres Abort: returns early (handle kept) when Rollback fails', needs='a failing ROLLBACK (alone, or after a failing statement)',
    history='initially MISSED (ROLLBACK could not fail in the fake). Fixed by: ROLLBACK is a fallible primitive of PgTx.tla and the fake; fault lists with a statement fault followed by a rollback fault'),
 'C14e-writesym-length-as-rune': dict(what='asm/asm.go writeSym: length prefix written as string(rune(sz))', needs='symbol of 128..255 bytes through the assembler', history='caught at once (C14_AsmAgrees)'),
 'C15e-intsplit-accepts-zero-padded-overlong': dict(what='vm/vm.go intSplit: validity test moved from the encoded length to the decoded value', needs='integer with length byte > 4 and zero bytes in front',
    history='initially MISSED (over-long integers arose only from single-byte corruption, rarely aligned). Fixed by: every integer of every generated program is also written in 5 and 8 bytes, zero-padded'),
 'C16e-batch-flushed-before-every-instruction': dict(what='asm/asm.go MenuExit: pending batch recognised by a non-empty item list (never cleared)', needs='ordinary instructions after the batch lines',
    history='initially EXCLUDED by the generators (batch lines only as a suffix, after an early false alarm with TWO groups). Fixed by: one batch group anywhere (AsmMC and random sources)'),
 'C17e-finish-saves-only-if-execd': dict(what='engine/db.go Finish: Save only if the last Exec ran the VM', needs='kept flushing persister: refused request of one session, then a session new to the store',
    history='initially MISSED. Fixed by: histories with refused inputs through a kept flushing persister with the second session starting right after a refused request - which found the same hazard in the ORIGINAL for over-long inputs (KF-kept-persister-after-overlong-input)'),
 'C18e-mem-get-default-first': dict(what='db/mem Get: default entry first, not-found if absent, translation only overrides', needs='translation without a default entry',
    history='caught at once by C10 (C10_Result: KvMC puts translations without default entries); the C18 language stage always stores a default entry'),
 'C19e-serialize-pooled-buffer-released-early': dict(what='persist Serialize: pooled buffer returned to the pool before its bytes are stored', needs='two sessions saving at the same time', history='caught at once (race detector, transcripts)'),
 'C20e-omitempty-code-execpath': dict(what='cbor omitempty on State.Code and ExecPath', needs='unflushed kept persister, ended session loaded after a session in mid-menu',
    history='caught at once by C07 (C07_Reuse); C20 has no kept-persister stage'),
 # ---- round 6
 'C01f-final-render-not-audited': dict(what='render/page.go render/prepare: the size audit of the final render removed, only the pre-render is audited', needs='sink node with a long later row or a nearly full fixed part', history='caught at once (C01_Fits)'),
 'C02f-sink-needs-room-for-both-browse-entries': dict(what='render/page.go prepare: refuses a sink of 2+ rows unless both browse entries would fit', needs='rows that fit on page 0 with less than next+previous+4 bytes to spare',
    history='initially MISSED (no clause said that content which fits must be shown). Fixed by: C02_FitsThenShown (one-page length computed by the recorder) - which found the same refusal in the ORIGINAL for single rows and exact fits (KF-render-conservative-capacity, excused only where the real pages equal the pinned algorithm)'),
 'C03f-named-move-refused-anywhere-on-stack': dict(what='vm/input.go applyTarget: "already at node" when the target is anywhere on the stack', needs='depth >= 2 and a named move to a node below the top (incl. the implicit MOVE _catch)',
    history='the engine then loops; the driver reported the hang but the orchestrator died on the missing summary field (exit 2, not a verdict). Fixed by: a hang summary is no longer fatal; caught (C04_ReqNav, C03_Step)'),
 'C04f-failed-previous-does-not-consume-input': dict(what='vm/runner.go runInCmp: INMATCH set only after applyTarget succeeded', needs='INCMP < before a matching INCMP, page 0, input = previous selector', history='caught at once (C04_ReqNav, C03_Step)'),
 'C05f-map-skips-refresh-of-mapped-symbol': dict(what='render/page.go Map: early return for an already mapped symbol (stale value after RELOAD)', needs='RELOAD of a mapped symbol followed by MAP', history='caught at once (C05_Load)'),
 'C06f-readin-not-cleared-on-later-match': dict(what='vm/runner.go runInCmp: READIN set on a miss, never cleared by a later match', needs='a miss, then a match, then CROAK / end of code',
    history='caught at once by C03 (C03_Step) and C20 (C20_Outcome); MISSED by C06 (its instruction-level clauses start from the logged flags). Fixed by: C06_ReqCtl (request level: terminated or not, position, client flags follow from what THIS request did with its input)'),
 'C07f-fs-get-trims-session-blob': dict(what='db/fs Get: TrimSpace on everything but bytecode (also the stored session)', needs='fs store, last loaded value ending in white space', history='caught at once (C07_Equiv on fs, C10_Result)'),
 'C08f-setinput-after-getcode-in-exec': dict(what='engine/db.go: SetInput moved behind the destructive GetCode', needs='initialised long-lived engine, over-long input in valid format',
    history='MISSED by C08 (C17 caught it: C17_Refused). Fixed by: C08_RefusedContinuable (a refused request leaves the pending code pending)'),
 'C09f-push-recycles-frame-and-drops-limits': dict(what='cache/cache.go Push: recycles the map behind the slice end and deletes its Sizes entries', needs='pop then push', history='caught at once (C09_Consistent)'),
 'C10f-fs-get-trims-trailing-newlines': dict(what='db/fs Get: trailing newlines trimmed', needs='value ending in a newline', history='caught at once (C10_Result)'),
 'C11f-empty-key-not-session-scoped': dict(what='db/db.go ToSessionKey: the empty key is not prefixed with the session', needs='empty key under a session (session selected on the store handle, Config.SessionId empty)',
    history='initially MISSED (no empty key in the universes). Fixed by: the empty key in the adversarial universe - which found that the fs backend answered the never-written empty key with a read error (fix 8235cca)'),
 'C12f-fs-name-sanitizer-merges-sessions': dict(what='db/fs pathFor: reserved characters replaced by _', needs='session ids that differ in one punctuation character',
    history='initially MISSED by C12 and C11 (ids alice/bob; punctuation only in dots and slashes). Fixed by: punctuation families of ids and keys (every ordered pair) in C11, and the crash-atomicity sessions are 254700000001:7 / 254700000001_7 with the neighbour compared before and after'),
 'C13f-failed-put-commits-explicit-tx': dict(what='db/postgres Put: a failed statement ends the transaction with COMMIT', needs='explicit transaction, earlier successful Put, statement failing on the client side (transaction not poisoned)',
    history='initially MISSED (every failed statement poisoned the transaction, so COMMIT rolled back; later reads fell into the sticky-multi region). Fixed by: soft (client-side) statement failures in PgTx.tla / the fake, the durable content observed after every operation, C13_NoUnackedDurable'),
 'C14f-writesize-trims-trailing-zero-bytes': dict(what='asm/asm.go writeSize: bytes.Trim strips low zero bytes', needs='size that is a multiple of 256', history='caught at once (C14_AsmAgrees)'),
 'C15f-map-guard-unmasks-dropped-decode-error': dict(what='render/page.go Map: empty key accepted; vm runMap overwrites the decode error', needs='malformed MAP executed by the VM', history='caught at once (C15_RunRejects)'),
 'C16f-lexer-splits-underscore-names': dict(what='asm/asm.go lexer: special characters are single-character tokens', needs='the builtin node name _catch in source',
    history='initially MISSED (no _catch in the symbol universes). Fixed by: _catch as MOVE / INCMP / CATCH / DOWN target in AsmMC and the random sources'),
 'C17f-first-skipped-on-refused-input-leaks-frame': dict(what='engine/db.go runFirst: returns before the clean-up when the input will be refused', needs='pre-VM check + input refused by the pattern',
    history='initially MISSED (applications with a pre-VM check were not judged on refused inputs at all). Fixed by: C17_RefusedFirst (position, cache scopes, pending code, language unchanged; outcome as the model) and program first in C17'),
 'C18f-reset-reapplies-config-language': dict(what='engine/db.go reset: Config.Language re-applied when the session starts over', needs='configured language + function-selected other language + graceful end + another request',
    history='initially MISSED (the end-to-end language stage had no configured language and stopped at the end of the program). Fixed by: half of the applications have Config.Language, a node that ends gracefully, scripted sessions (select, back, end, dial in), C18_LangKept'),
 'C19f-interned-language-pointer': dict(what='state SetLanguage: one *Language per code for all states; the cbor decoder writes into it', needs='Config.Language + persister + a session that switched language',
    history='initially MISSED by C19 and C18 (no configured language anywhere). Fixed by: Config.Language in half of the race histories and the session language in the transcripts (race detector + transcripts); C18 catches it too (C18_LangKept: a new session starts in another session\'s language)'),
 'C20f-first-cleanup-deferred-before-blocked-return': dict(what='engine/db.go runFirst: clean-up deferred before the blocked-session return', needs='pre-VM check, blocked session', history='caught at once (C20_Outcome)'),
 # ---- round 7 (ten properties: those whose round-6 change had been missed)
 'C02g-first-restores-index-before-unwinding': dict(what='engine/db.go runFirst: page index restored BEFORE the scratch level is unwound (State.Up resets it)', needs='pre-VM check + persisted operation + sink of 3+ pages, browsing from page 1',
    history='caught at once by C04 (C04_ReqNav on program first); MISSED by C02 (no walk had a pre-VM check). Fixed by: every third engine-level walk runs with a pre-VM check'),
 'C06g-first-defers-clear-terminate-when-blocked': dict(what='engine/db.go runFirst: the deferred TERMINATE / DIRTY clean-up hoisted above the blocked-session return', needs='pre-VM check + blocked session + another request', history='caught at once (C06_ReqCtl, C20_Outcome)'),
 'C08g-readin-restored-conditionally-after-index-error': dict(what='vm/runner.go runInCmp: READIN set again after a failed < only if it was set on entry', needs='INCMP < tested first, page 0, input = previous selector',
    history='caught at once by C03 (C03_Step); MISSED by C08. Fixed by: C08_ReqContinuable (blocked / pending code after a request exactly as the specification says)'),
 'C11g-engine-trims-session-id': dict(what='engine NewEngine: Config.SessionId trimmed', needs='two session ids equal after trimming white space',
    history='initially MISSED (C11 drove the storage backends only). Fixed by: stage E - families of look-alike ids (white space, case, punctuation, phone-number forms) served through per-request engines over one directory, each compared with itself alone'),
 'C12g-persister-sets-prefix-once': dict(what='persist: DATATYPE_STATE selected once in NewPersister, not before Put / Get', needs='application data stored through the same store handle during a request',
    history='initially MISSED (the store handle was the persister\'s alone). Fixed by: during the warm-up of the crash-atomicity session the application writes data of its own through the same handle between Exec and Finish'),
 'C13g-stop-rolls-back-after-failed-commit': dict(what='db/postgres Stop: ROLLBACK on the saved handle after a failed COMMIT (transaction ended twice)', needs='explicit transaction, failing COMMIT at Stop / Close',
    history='initially MISSED: the double end was seen by the fake only for statements, and the clause sat in an invariant that the sticky-multi finding excuses after an explicit transaction. Fixed by: COMMIT / ROLLBACK on a finished transaction logged by model and fake, C13_NotEndedTwice (never excused)'),
 'C16g-writesym-length-as-rune-again': dict(what='asm/asm.go writeSym: w.WriteRune(rune(sz)) (same slip as C14e, found independently for C16)', needs='symbol of 128..255 bytes in assembly source',
    history='initially MISSED by C16 (symbols of at most 10 bytes; C14 catches it). Fixed by: symbols of 127 / 128 / 200 / 255 bytes in the random sources, a 130-byte symbol in AsmMC'),
 'C17g-validinput-trims-before-matching': dict(what='vm/input.go ValidInput: pattern applied to the trimmed input, raw input executed', needs='input with surrounding white space', history='caught at once (C17_Refused)'),
 'C18g-reload-does-not-apply-language': dict(what='vm/runner.go: language applied in runLoad only, not for RELOAD', needs='RELOAD of a language-selecting function', history='caught at once (C18_Lang)'),
 'C19g-flag-debugger-lazy-write': dict(what='state/debug.go AsList: unnamed flags registered lazily in the package-level registry (write on a read path)', needs='state debugging on + client flag without a debug name + first use while two sessions run',
    history='initially MISSED twice: no history ran with state debugging, and then the reference (solo) runs, made BEFORE the concurrent phase, had already triggered every lazy initialisation. Fixed by: state debugging in a third of the race histories, references computed AFTER the concurrent phase (which exposed a race in the harness\'s own memo, now guarded)'),
}
for sid, a in A.items():
    mp = os.path.join(V, 'seeded', sid, 'meta.json')
    if not os.path.exists(mp):
        continue
    m = json.load(open(mp))
    for k, v in a.items():
        if k == 'history' and m.get('history') and m['history'] != v and not v:
            continue
        m[k] = v
    m.setdefault('produced_by', 'fresh sub-agent given only the property text and a scratch worktree')
    m.setdefault('ran', 'tools/mutant.py (scratch worktree: patch applies, builds with/without tag, baseline 256/256, demo fails with / passes without, checks via VERIF_REPO)')
    json.dump(m, open(mp, 'w'), indent=1, sort_keys=True)
    print('annotated', sid)
