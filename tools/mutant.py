#!/usr/bin/env python3
"""Evaluate a seeded mutant: tools/mutant.py <src-dir> <seed-id> <PID> [more PIDs to run...]
<src-dir> holds patch.diff, zz_demo_test.go, DEMO_PATH.txt (and NOTES.md) as produced by a sub-agent.
Steps (all in a scratch worktree of /repo, never in /repo): the patch applies, builds with and without the verif tag, the baseline
suite passes, the demonstration fails with and passes without the patch; then the given checks run against the mutated tree
(VERIF_REPO).  Writes /verif/seeded/<seed-id>/{patch.diff, demo test, meta.json}."""
import json, os, shutil, subprocess, sys, time
V = os.path.dirname(os.path.dirname(os.path.abspath(__file__)))
src, sid, pids = sys.argv[1], sys.argv[2], sys.argv[3:]
ENV = dict(os.environ, GOFLAGS='-mod=mod', GOPROXY='off', GOSUMDB='off', GOTOOLCHAIN='local')
wt = '/tmp/mutcheck/' + sid
subprocess.run(['git', '-C', '/repo', 'worktree', 'remove', '--force', wt], stdout=subprocess.DEVNULL, stderr=subprocess.DEVNULL)
os.makedirs('/tmp/mutcheck', exist_ok=True)
subprocess.run(['git', '-C', '/repo', 'worktree', 'add', '-q', '--detach', wt, 'HEAD'], check=True)
meta = dict(id=sid, breaks=pids[0], base_commit=subprocess.run(['git', '-C', '/repo', 'rev-parse', '--short', 'HEAD'], stdout=subprocess.PIPE, text=True).stdout.strip(), checks={})
try:
    if not os.path.exists(os.path.join(src, 'DEMO_PATH.txt')) and os.path.exists(os.path.join(src, 'meta.json')):
        # re-evaluation from the kept copy under seeded/<id>/
        demo_rel = json.load(open(os.path.join(src, 'meta.json')))['demo_path']
        tmp = '/tmp/mutcheck/src-' + sid
        shutil.rmtree(tmp, ignore_errors=True)
        os.makedirs(tmp)
        shutil.copy(os.path.join(src, 'patch.diff'), tmp)
        shutil.copy(os.path.join(src, 'zz_demo_test.go.txt'), os.path.join(tmp, 'zz_demo_test.go'))
        if os.path.exists(os.path.join(src, 'NOTES.md')):
            shutil.copy(os.path.join(src, 'NOTES.md'), tmp)
        src = tmp
    else:
        demo_rel = open(os.path.join(src, 'DEMO_PATH.txt')).read().strip()
    demo_dst = os.path.join(wt, demo_rel)

    def sh(cmd, cwd=wt, timeout=1800):
        p = subprocess.run(cmd, cwd=cwd, env=ENV, shell=isinstance(cmd, str), stdout=subprocess.PIPE, stderr=subprocess.STDOUT, text=True, timeout=timeout)
        return p.returncode, p.stdout
    FAST = os.environ.get('MUT_FAST') == '1' and os.path.exists(os.path.join(V, 'seeded', sid, 'meta.json'))
    if FAST:
        # regression run of a kept change: validity (applies, builds, baseline, demonstration) was established when it was kept;
        # only the checks are re-run
        oldm = json.load(open(os.path.join(V, 'seeded', sid, 'meta.json')))
        for k in ('demo_passes_without_patch', 'builds', 'build_output', 'baseline_passes', 'baseline_output', 'demo_fails_with_patch', 'demo_output_with_patch'):
            if k in oldm:
                meta[k] = oldm[k]
    # demo passes on the unchanged tree
    shutil.copy(os.path.join(src, 'zz_demo_test.go'), demo_dst)
    pkg = './' + os.path.dirname(demo_rel)
    if not FAST:
        rc0, o0 = sh(['go', 'test', '-vet=off', '-count=1', '-tags', '', pkg])
        meta['demo_passes_without_patch'] = rc0 == 0
    os.remove(demo_dst)
    rc, o = sh(['git', 'apply', os.path.abspath(os.path.join(src, 'patch.diff'))])
    meta['patch_applies'] = rc == 0
    if rc != 0:
        print(o)
        raise SystemExit('patch does not apply')
    if not FAST:
        rc, o = sh("go build ./... 2>&1 | grep -v gdbm | grep -v '^#' ; go build -tags verif ./... 2>&1 | grep -v gdbm | grep -v '^#'")
        meta['builds'] = o.strip() == '' or 'error' not in o.lower()
        meta['build_output'] = o[-500:]
        rc, o = sh(['python3', os.path.join(V, 'tools', 'baseline.py'), '--repo', wt], cwd=V)
        meta['baseline_passes'] = rc == 0
        meta['baseline_output'] = o.strip().splitlines()[-1] if o.strip() else ''
        shutil.copy(os.path.join(src, 'zz_demo_test.go'), demo_dst)
        rc1, o1 = sh(['go', 'test', '-vet=off', '-count=1', pkg])
        meta['demo_fails_with_patch'] = rc1 != 0
        meta['demo_output_with_patch'] = o1[-800:]
        os.remove(demo_dst)
    print('mutant %s: applies=%s builds=%s baseline=%s demo: fails-with=%s passes-without=%s%s' % (
        sid, meta['patch_applies'], meta.get('builds'), meta.get('baseline_passes'), meta.get('demo_fails_with_patch'), meta.get('demo_passes_without_patch'),
        ' (validity as recorded; checks only)' if FAST else ''))
    for pid in pids:
        t0 = time.time()
        e = dict(ENV, VERIF_REPO=wt)
        p = subprocess.run([os.path.join(V, 'check'), pid, '--tier', os.environ.get('MUT_TIER', 'quick')], cwd=V, env=e, stdout=subprocess.PIPE, stderr=subprocess.STDOUT, text=True, timeout=7200)
        viol = [l for l in p.stdout.splitlines() if l.startswith('VIOLATION')]
        first = ''
        if viol:
            i = p.stdout.splitlines().index(viol[0])
            first = '\n'.join(p.stdout.splitlines()[i:i + 2])[:900]
        meta['checks'][pid] = dict(rc=p.returncode, violations=len(viol), wall_s=round(time.time() - t0, 1), first=first, last=p.stdout.strip().splitlines()[-1][:300] if p.stdout.strip() else '')
        print('  check %s: rc=%s violations=%d  %s' % (pid, p.returncode, len(viol), first[:300].replace('\n', ' | ')))
    dst = os.path.join(V, 'seeded', sid)
    os.makedirs(dst, exist_ok=True)
    shutil.copy(os.path.join(src, 'patch.diff'), dst)
    shutil.copy(os.path.join(src, 'zz_demo_test.go'), os.path.join(dst, 'zz_demo_test.go.txt'))
    if os.path.exists(os.path.join(src, 'NOTES.md')):
        shutil.copy(os.path.join(src, 'NOTES.md'), dst)
    meta['demo_path'] = demo_rel
    meta['detected_by'] = [k for k, v in meta['checks'].items() if v['rc'] == 1]
    old = {}
    mp = os.path.join(dst, 'meta.json')
    if os.path.exists(mp):
        old = json.load(open(mp))
        old.get('checks', {}).update(meta['checks'])
        meta['checks'] = old['checks']
        meta['detected_by'] = [k for k, v in meta['checks'].items() if v['rc'] == 1]
        for k in ('needs', 'what', 'history'):
            if k in old:
                meta[k] = old[k]
    json.dump(meta, open(mp, 'w'), indent=1, sort_keys=True)
finally:
    subprocess.run(['git', '-C', '/repo', 'worktree', 'remove', '--force', wt], stdout=subprocess.DEVNULL, stderr=subprocess.DEVNULL)
