"""Shared machinery of the go-vise verification orchestrator (standard library only).

Verdict policy (DESIGN.md section 5):
  exit 0  property held on everything explored (known findings are printed, not failed)
  exit 1  a real-code observation violates a named property invariant -> VIOLATION line
  exit 2  infrastructure problem (build, TLC, timeout, selftest, continuity) - never a verdict
"""
import json, os, re, shutil, subprocess, sys, tempfile, time, hashlib, atexit

VERIF = os.path.dirname(os.path.dirname(os.path.abspath(__file__)))
REPO = os.environ.get('VERIF_REPO', '/repo')
SPEC = os.path.join(VERIF, 'spec')
HARNESS = os.path.join(VERIF, 'harness')
EVID = os.path.join(VERIF, 'evidence')
REPLAYS = os.path.join(EVID, 'replays')
JAR = '/opt/veriftools/tla/tla2tools.jar:/opt/veriftools/tla/CommunityModules-deps.jar'
NCPU = os.cpu_count() or 4

GOENV = dict(GOFLAGS='-mod=mod', GOPROXY='off', GOSUMDB='off', GOTOOLCHAIN='local', CGO_ENABLED='1')


class Infra(Exception):
    """infrastructure failure -> exit 2"""


_scratch_dirs = []


def scratch(prefix='verif-'):
    d = tempfile.mkdtemp(prefix=prefix, dir=os.environ.get('TMPDIR') or '/tmp')
    _scratch_dirs.append(d)
    return d


def _cleanup():
    for d in _scratch_dirs:
        shutil.rmtree(d, ignore_errors=True)


atexit.register(_cleanup)


def seed():
    try:
        return int(os.environ.get('VERIF_SEED', '1'))
    except ValueError:
        return 1


def log(*a):
    print(*a, flush=True)


# ----------------------------------------------------------------------------------------- Go harness

_built = {}


def build_harness(race=False):
    """Build /verif/harness against REPO's current working tree with the verif tag. Returns binary path."""
    key = ('race' if race else 'plain')
    if key in _built:
        return _built[key]
    d = scratch('verif-h-')
    src = os.path.join(d, 'src')
    shutil.copytree(HARNESS, src)
    gm = open(os.path.join(src, 'go.mod')).read()
    gm = re.sub(r'(replace git\.defalsify\.org/vise\.git => ).*', r'\g<1>' + REPO, gm)
    open(os.path.join(src, 'go.mod'), 'w').write(gm)
    shutil.copy(os.path.join(REPO, 'go.sum'), os.path.join(src, 'go.sum'))
    out = os.path.join(d, 'vh-race' if race else 'vh')
    cmd = ['go', 'build', '-tags', 'verif', '-o', out]
    if race:
        cmd.append('-race')
    cmd.append('./cmd/vh')
    env = dict(os.environ, **GOENV)
    p = subprocess.run(cmd, cwd=src, env=env, stdout=subprocess.PIPE, stderr=subprocess.STDOUT, text=True)
    if p.returncode != 0:
        raise Infra('harness build failed against %s:\n%s' % (REPO, p.stdout[-4000:]))
    _built[key] = out
    return out


def run_harness(args, *, race=False, timeout=1800, env=None, cwd=None, check=True, stdin=None):
    exe = build_harness(race)
    e = dict(os.environ, **GOENV)
    e.setdefault('VERIF_SEED', str(seed()))
    e['VERIF_REPO'] = REPO
    if env:
        e.update(env)
    try:
        p = subprocess.run([exe] + list(args), cwd=cwd, env=e, stdout=subprocess.PIPE, stderr=subprocess.PIPE, text=True,
                           timeout=timeout, input=stdin)
    except subprocess.TimeoutExpired:
        raise Infra('harness %s timed out after %ss' % (args[:2], timeout))
    if check and p.returncode != 0:
        raise Infra('harness %s failed (rc=%s):\n%s\n%s' % (args[:3], p.returncode, p.stdout[-2000:], p.stderr[-4000:]))
    return p


# ----------------------------------------------------------------------------------------- TLC

class TlcResult:
    def __init__(self):
        self.rc = None
        self.out = ''
        self.generated = 0
        self.distinct = 0
        self.depth = 0
        self.violated = []       # names of violated invariants / properties
        self.at = []             # (invariant, l) for trace specs: event l-1 violates invariant
        self.l = None            # last value of trace position variable printed in a counterexample
        self.errors = []         # other TLC errors
        self.mbt = []            # decoded MBT json values
        self.coverage_zero = []
        self.wall = 0.0
        self.postcondition_failed = False

    @property
    def ok(self):
        return self.rc == 0 and not self.violated and not self.errors and not self.postcondition_failed


_re_final = re.compile(r'^(\d+) states generated, (\d+) distinct states found, (\d+) states left on queue', re.M)
_re_depth = re.compile(r'The depth of the complete state graph search is (\d+)')
_re_inv = re.compile(r'Error: Invariant (\S+) is violated')
_re_act = re.compile(r'Error: Action property (\S+) is violated')
_re_l = re.compile(r'^(?:/\\ )?l = (\d+)\s*$', re.M)
_re_init = re.compile(r'Error: Invariant (\S+) is violated by the initial state:\s*\n(?:/\\ )?l = (\d+)')


def tlc(workdir, module, cfg=None, *, workers=1, timeout=900, simulate=None, depth=None, tlc_seed=None, coverage=False,
        mbt_sink=None, keep_out=True, deadlock=False, extra=None, heap=None, dfs=False, env=None):
    """Run TLC on workdir/module.tla. mbt_sink: callable(obj) for every MBT line (streamed)."""
    r = TlcResult()
    meta = tempfile.mkdtemp(prefix='meta-%s-' % module, dir=workdir)
    java = ['java', '-XX:+UseParallelGC', '-Xss64m']
    if heap:
        java.append('-Xmx' + heap)
    if dfs:
        java.append('-Dtlc2.tool.queue.IStateQueue=StateDeque')
    java.append('-Djava.io.tmpdir=' + meta)
    cmd = java + ['-cp', JAR, 'tlc2.TLC', '-workers', str(workers), '-metadir', meta, '-noGenerateSpecTE']
    if cfg:
        cmd += ['-config', cfg]
    if not deadlock:
        pass
    if simulate is not None:
        cmd += ['-simulate', simulate]
    if depth is not None:
        cmd += ['-depth', str(depth)]
    if tlc_seed is not None:
        cmd += ['-seed', str(tlc_seed)]
    if coverage:
        cmd += ['-coverage', '1']
    if extra:
        cmd += extra
    cmd.append(module)
    t0 = time.time()
    penv = dict(os.environ)
    penv.pop('JAVA_TOOL_OPTIONS', None)
    if env:
        penv.update(env)
    p = subprocess.Popen(cmd, cwd=workdir, stdout=subprocess.PIPE, stderr=subprocess.STDOUT, text=True, env=penv, errors='replace')
    chunks = []
    deadline = t0 + timeout
    import threading
    timer = threading.Timer(timeout, lambda: p.kill())
    timer.start()
    nmbt = 0
    try:
        for line in p.stdout:
            if line.startswith('<<"MBT", '):
                nmbt += 1
                if mbt_sink is not None:
                    try:
                        s = line.rstrip('\n')
                        s = s[len('<<"MBT", '):]
                        s = s[:s.rindex('>>')]
                        mbt_sink(json.loads(json.loads(s)))
                    except Exception as ex:
                        r.errors.append('bad MBT line: %r (%s)' % (line[:200], ex))
                continue
            if len(chunks) < 400000:
                chunks.append(line)
    finally:
        timer.cancel()
    p.wait()
    r.wall = time.time() - t0
    r.rc = p.returncode
    r.out = ''.join(chunks)
    r.nmbt = nmbt
    shutil.rmtree(meta, ignore_errors=True)
    if time.time() >= deadline - 0.01 and r.rc not in (0, 12, 13):
        raise Infra('TLC %s timed out after %ss' % (module, timeout))
    m = None
    for m in _re_final.finditer(r.out):
        pass
    if m:
        r.generated, r.distinct = int(m.group(1)), int(m.group(2))
    m = _re_depth.search(r.out)
    if m:
        r.depth = int(m.group(1))
    r.violated = _re_inv.findall(r.out) + _re_act.findall(r.out)
    r.at = [(a, int(b)) for a, b in _re_init.findall(r.out)]
    ls = _re_l.findall(r.out)
    if ls:
        r.l = int(ls[-1])
    if 'postcondition' in r.out.lower() and ('violated' in r.out.lower() or 'false' in r.out.lower()):
        if re.search(r'[Pp]ostcondition.*(violated|FALSE|false)', r.out):
            r.postcondition_failed = True
    for line in r.out.splitlines():
        if line.startswith('Error:') and 'is violated' not in line and 'behavior up to this point' not in line.lower():
            if 'The behavior up to' in line:
                continue
            r.errors.append(line)
    if coverage:
        for line in r.out.splitlines():
            mm = re.match(r'^<(\w+) line .*>: (\d+):(\d+)$', line.strip())
            if mm and mm.group(2) == '0' and mm.group(3) == '0':
                r.coverage_zero.append(mm.group(1))
    if r.rc not in (0, 12, 13) and not r.violated and not r.errors:
        r.errors.append('TLC exit code %s' % r.rc)
    return r


def spec_copy(extra_files=None):
    """Scratch copy of /verif/spec (TLC litters its directory)."""
    d = scratch('verif-s-')
    w = os.path.join(d, 'spec')
    shutil.copytree(SPEC, w)
    for name, content in (extra_files or {}).items():
        with open(os.path.join(w, name), 'w') as f:
            f.write(content)
    return w


def require_tlc_ok(r, what):
    if r.errors or (r.rc not in (0,) and not r.violated):
        raise Infra('%s: TLC failed (rc=%s): %s\n%s' % (what, r.rc, r.errors[:3], r.out[-3000:]))


def validate_trace(module, cfg, path, *, chunk=15000, timeout=900, par=8, workdir=None, split_on=None, adaptive=False):
    """Trace validation: TLC evaluates the named invariants of <module> on every line of the ndjson file.
    Returns (violations, stats): violations = [(invariant, line_index0, line_obj)], stats = dict(events, tlc_wall)."""
    from concurrent.futures import ThreadPoolExecutor
    w = workdir or spec_copy()
    lines = [x for x in open(path).read().split('\n') if x.strip()]
    n = len(lines)
    if n == 0:
        return [], dict(events=0, wall=0.0, chunks=0)
    d = scratch('verif-t-')
    jobs = []
    start, ci = 0, 0
    if adaptive or split_on:
        # spread a mid-sized trace over the available cores (only where cutting is safe: per-line judgement, or cuts at sequence starts)
        chunk = min(chunk, max(500, -(-n // max(1, par))))
    while start < n:
        end = min(n, start + chunk)
        if split_on:
            # sequences judged with a folded model state must not be cut: extend the chunk to the next sequence start
            while end < n and split_on not in lines[end]:
                end += 1
        part = lines[start:end]
        fp = os.path.join(d, 'chunk%d.ndjson' % ci)
        with open(fp, 'w') as f:
            f.write('\n'.join(part) + '\n')
        jobs.append((start, len(part), fp))
        start, ci = end, ci + 1

    def one(job):
        start, cnt, fp = job
        r = tlc(w, module, cfg, workers=1, timeout=timeout, extra=['-continue'], env={'VERIF_TRACE': fp})
        if r.errors or r.rc not in (0, 12, 13):
            # rc 12/13: violations; anything else is infrastructure
            real = [e for e in r.errors if 'is violated by the initial state' not in e]
            if real or r.rc not in (0, 12, 13):
                raise Infra('trace validation %s failed (rc=%s): %s\n%s' % (module, r.rc, real[:3], r.out[-3000:]))
        if r.distinct != cnt:
            raise Infra('trace validation %s consumed %d of %d events\n%s' % (module, r.distinct, cnt, r.out[-3000:]))
        return [(inv, start + l - 2) for inv, l in r.at], r.wall

    t0 = time.time()
    with ThreadPoolExecutor(max_workers=min(par, len(jobs))) as ex:
        res = list(ex.map(one, jobs))
    viol = []
    for v, _ in res:
        for inv, idx in v:
            viol.append((inv, idx, json.loads(lines[idx])))
    shutil.rmtree(d, ignore_errors=True)
    return viol, dict(events=n, wall=round(time.time() - t0, 2), chunks=len(jobs))


def gen_cfg(spec='Spec', constants=None, invariants=(), properties=(), view=None, action_constraint=None, constraint=None,
            postcondition=None, init_next=None):
    out = []
    if init_next:
        out += ['INIT ' + init_next[0], 'NEXT ' + init_next[1]]
    else:
        out.append('SPECIFICATION ' + spec)
    if constants:
        out.append('CONSTANTS')
        for k, v in constants.items():
            out.append('  %s = %s' % (k, tla_value(v)))
    if invariants:
        out.append('INVARIANTS ' + ' '.join(invariants))
    if properties:
        out.append('PROPERTIES ' + ' '.join(properties))
    if view:
        out.append('VIEW ' + view)
    if constraint:
        out.append('CONSTRAINT ' + constraint)
    if action_constraint:
        out.append('ACTION_CONSTRAINT ' + action_constraint)
    if postcondition:
        out.append('POSTCONDITION ' + postcondition)
    out.append('CHECK_DEADLOCK FALSE')
    return '\n'.join(out) + '\n'


def tla_value(v):
    if isinstance(v, bool):
        return 'TRUE' if v else 'FALSE'
    if isinstance(v, int):
        return str(v)
    if isinstance(v, str):
        return '"%s"' % v
    if isinstance(v, (set, frozenset)):
        return '{' + ', '.join(tla_value(x) for x in sorted(v, key=lambda z: (str(type(z)), z))) + '}'
    if isinstance(v, (list, tuple)):
        return '<<' + ', '.join(tla_value(x) for x in v) + '>>'
    raise ValueError(v)


# ----------------------------------------------------------------------------------------- known findings

def load_known():
    p = os.path.join(VERIF, 'known_findings.json')
    if not os.path.exists(p):
        return []
    return json.load(open(p)).get('findings', [])


def known_for(pid):
    return [k for k in load_known() if k['property'] == pid and k.get('status') == 'known']


# ----------------------------------------------------------------------------------------- results

class Outcome:
    """Collects what a check saw; renders the VIOLATION / KNOWN-FINDING lines, evidence and exit code."""

    def __init__(self, pid, tier, level='model_checking'):
        self.pid, self.tier, self.level = pid, tier, level
        self.t0 = time.time()
        self.cov = dict(states=0, transitions=0, traces_validated_against_impl=0, evaluations=0, distinct_nontrivial=0,
                        samples=[], rule='', model_drift=[], coverage_zero_actions=[], tlc_runs=[], known_findings=[])
        self.assumptions = []
        self.violations = []   # (description, replay_path)
        self.known_hit = {}    # finding id -> description
        self.distinct = set()

    def add_tlc(self, name, r):
        self.cov['states'] += r.distinct
        self.cov['transitions'] += r.generated
        self.cov['tlc_runs'].append(dict(name=name, generated=r.generated, distinct=r.distinct, depth=r.depth,
                                         wall_s=round(r.wall, 2)))
        for a in r.coverage_zero:
            if a not in self.cov['coverage_zero_actions']:
                self.cov['coverage_zero_actions'].append(a)

    def stage(self, name):
        now = time.time()
        if getattr(self, '_stage', None):
            self.cov.setdefault('stages', []).append(dict(stage=self._stage[0], wall_s=round(now - self._stage[1], 2)))
        self._stage = (name, now) if name else None

    def sample(self, x, limit=6):
        if len(self.cov['samples']) < limit:
            self.cov['samples'].append(x)

    def drift(self, x, limit=20):
        if len(self.cov['model_drift']) < limit:
            self.cov['model_drift'].append(x)

    def violation(self, what, case=None, ext='json'):
        """Record a violation; case is saved as a replay file."""
        self.nviol = getattr(self, 'nviol', 0) + 1
        if len(self.violations) >= 5:
            return
        os.makedirs(REPLAYS, exist_ok=True)
        blob = case if isinstance(case, str) else json.dumps(case, sort_keys=True)
        h = hashlib.sha1(blob.encode()).hexdigest()[:12]
        path = os.path.join(REPLAYS, '%s-%s.%s' % (self.pid, h, ext))
        with open(path, 'w') as f:
            f.write(blob)
        self.violations.append((what, path))

    def known(self, fid, what):
        self.known_hit[fid] = what

    def finish(self):
        self.stage(None)
        for fid, what in sorted(self.known_hit.items()):
            log('KNOWN-FINDING: property=%s %s [%s]' % (self.pid, what, fid))
            self.cov['known_findings'].append(fid)
        seen = set()
        for what, path in self.violations:
            if path in seen:
                continue
            seen.add(path)
            log('VIOLATION property=%s replay=%s' % (self.pid, path))
            log('  ' + what[:600])
            if len(seen) >= 10:
                break
        if not self.cov['distinct_nontrivial']:
            self.cov['distinct_nontrivial'] = len(self.distinct)
        ev = dict(property_id=self.pid, tier=self.tier, seed=seed(), level=self.level, coverage=self.cov,
                  assumptions=self.assumptions, wall_s=round(time.time() - self.t0, 2), violations=getattr(self, 'nviol', 0))
        os.makedirs(EVID, exist_ok=True)
        with open(os.path.join(EVID, self.pid + '.json'), 'w') as f:
            json.dump(ev, f, indent=1, sort_keys=True)
        log('%s %s: %d violation(s), %d known finding(s), %.1fs; model %d states / %d transitions; %d real traces, %d real evaluations' % (
            self.pid, self.tier, len(seen), len(self.known_hit), time.time() - self.t0, self.cov['states'], self.cov['transitions'],
            self.cov['traces_validated_against_impl'], self.cov['evaluations']))
        return 1 if seen else 0


def read_ndjson(path):
    out = []
    with open(path) as f:
        for line in f:
            line = line.strip()
            if line:
                out.append(json.loads(line))
    return out


def write_ndjson(path, rows):
    with open(path, 'w') as f:
        for r in rows:
            f.write(json.dumps(r, sort_keys=True, separators=(',', ':')))
            f.write('\n')
