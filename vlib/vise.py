"""Shared pipeline of the VM/engine property family (C03-C08, C17, C18, C20) over Vise.tla / Engine.tla.

  A  ViseMC: TLC explores a model program exhaustively (all inputs at every HALT, all external results, refused inputs,
     long-lived or persisted mode) and checks the property's ghost/observation invariants on the design.
  B  every model transition that completes a request is emitted as a client history and replayed on the real engine.
  C  the harness records the real engine on the replayed histories and on seeded random well-formed programs: one ndjson
     line per run-loop iteration (verif hook) and per request; TLC (ViseTrace) applies the spec's step function to every
     logged pre-state and compares the property's projection with the logged post-state.
Only invariants named after the property decide; Drift_* is reported as model drift; Continuity is an infrastructure error.
"""
import json, os
from . import core
from .core import Outcome, Infra, log

BASE_CONST = dict(UseLog=False, Root='root', MaxLevel=128, Cap=0)
SUBST = ['Prog <- MCProg', 'Syms <- MCSyms']
BAD_INPUT = '\x00'
LONG_INPUT = '1' * 300


def mc_cfg(mode, maxreq, nflags, invariants=(), emit=False, cap=0):
    c = dict(BASE_CONST, Mode=mode, MaxReq=maxreq, NFlags=nflags, Cap=cap)
    txt = core.gen_cfg(constants=c, invariants=invariants, view='View', action_constraint='Emit' if emit else None)
    return txt.replace('CONSTANTS\n', 'CONSTANTS\n  ' + '\n  '.join(SUBST) + '\n')


def trace_cfg(invs):
    c = dict(UseLog=True, Root='root', MaxLevel=128)
    txt = core.gen_cfg(spec='TraceSpec', constants=c, invariants=invs)
    return txt.replace('CONSTANTS\n', 'CONSTANTS\n  Prog <- NoProg\n  Syms <- NoProg\n')


def prog_path(name):
    return os.path.join(core.SPEC, 'programs', name + '.json')


# concrete refused inputs standing for the model's class "BAD": bytes the pattern never accepts, and inputs whose first
# characters look acceptable but that contain a line feed (the pattern has to hold for the WHOLE input)
BAD_INPUTS = ['hex:00', 'hex:310a', ' 1', 'hex:610a62', 'hex:300d0a', '*']


def to_history(mbt, tail=True):
    inputs, picks = [], []
    for n, h in enumerate(mbt['hist']):
        i = h['input']
        bad = BAD_INPUTS[(n + len(mbt['hist'])) % len(BAD_INPUTS)]
        inputs.append(bad if i == 'BAD' else LONG_INPUT if i == 'LONG' else i)
        picks.append([x - 1 for x in h['picks']])
    return dict(inputs=inputs, picks=picks, mode=mbt['mode'], tail=tail)


def harness_summary(p):
    return json.loads([x for x in p.stdout.splitlines() if x.startswith('SUMMARY ')][-1][8:])


class Family:
    def __init__(self, pid, tier, mc_invs, trace_invs, programs, modes=('L',), matcher=None, level='model_checking'):
        self.pid, self.tier = pid, tier
        self.thorough = tier == 'thorough'
        self.mc_invs, self.trace_invs = list(mc_invs), list(trace_invs)
        self.programs, self.modes = programs, modes
        self.matcher = matcher or (lambda inv, ev, ctx: None)
        self.out = Outcome(pid, tier, level)
        self.w = core.spec_copy()
        self.d = core.scratch('verif-%s-' % pid.lower())
        self.pairs = set()
        open(os.path.join(self.w, 'vt.cfg'), 'w').write(trace_cfg(self.trace_invs + ['Drift_Code', 'Drift_Menu', 'Drift_State', 'Drift_Req', 'Continuity']))

    # ---- A
    def model_check(self, maxreq):
        for prog in self.programs:
            pj = json.load(open(prog_path(prog)))
            nflags = 8 + pj['flagcount']
            for mode in self.modes:
                cfg = 'mc_%s_%s.cfg' % (prog, mode)
                open(os.path.join(self.w, cfg), 'w').write(mc_cfg(mode, maxreq, nflags, self.mc_invs, cap=pj.get('cachesize', 0)))
                r = core.tlc(self.w, 'ViseMC', cfg, workers=core.NCPU, timeout=3000,
                             env={'VERIF_PROG': prog_path(prog)})
                core.require_tlc_ok(r, 'ViseMC %s/%s' % (prog, mode))
                if r.violated:
                    raise Infra('ViseMC %s/%s: the specification violates %s (spec error)\n%s' % (prog, mode, r.violated, r.out[-3000:]))
                self.out.add_tlc('ViseMC %s mode=%s MaxReq=%d' % (prog, mode, maxreq), r)

    # ---- B + C for model programs
    def replay_model(self, maxreq, limit=None):
        """B+C for the model programs: TLC emits every client history of the bound, the real engine serves them, TLC judges the
        recorded runs.  Generation and serving of the (program, mode) combinations run side by side; judging (itself parallel) in order."""
        import concurrent.futures, time
        jobs = [(prog, mode) for prog in self.programs for mode in self.modes]

        def produce(job):
            prog, mode = job
            pj = json.load(open(prog_path(prog)))
            nflags = 8 + pj['flagcount']
            cfg = 'gen_%s_%s.cfg' % (prog, mode)
            open(os.path.join(self.w, cfg), 'w').write(mc_cfg(mode, maxreq, nflags, emit=True, cap=pj.get('cachesize', 0)))
            hp = os.path.join(self.d, 'hist_%s_%s.ndjson' % (prog, mode))
            hists = []
            r = core.tlc(self.w, 'ViseMC', cfg, workers=1, timeout=3000, mbt_sink=lambda o: hists.append(to_history(o)), env={'VERIF_PROG': prog_path(prog)})
            core.require_tlc_ok(r, 'ViseMC generation %s/%s' % (prog, mode))
            cap = limit or (None if self.thorough else 1500)
            if cap and len(hists) > cap:
                # quick tier: an even sample of the histories of the bound (every k-th in TLC's breadth-first order), all of them in the thorough tier
                k = -(-len(hists) // cap)
                self.out.cov.setdefault('history_sampling', []).append(dict(program=prog, mode=mode, histories=len(hists), every=k))
                hists = hists[::k]
            with open(hp, 'w') as f:
                for h in hists:
                    f.write(json.dumps(h) + '\n')
            tr = os.path.join(self.d, 'trace_%s_%s.ndjson' % (prog, mode))
            p = core.run_harness(['vise-run', prog_path(prog), hp, tr, mode])
            return prog, mode, r, hists, tr, harness_summary(p)
        core.build_harness()            # once, before the threads ask for it
        with concurrent.futures.ThreadPoolExecutor(max_workers=max(1, min(4, core.NCPU // 3))) as ex:
            results = list(ex.map(produce, jobs))
        for prog, mode, r, hists, tr, summ in results:
            self.out.add_tlc('ViseMC behaviour generation %s mode=%s MaxReq=%d' % (prog, mode, maxreq), r)
            if hists:
                self.out.sample(dict(kind='TLC-generated client history replayed on the real engine', program=prog, history=hists[len(hists) // 2]))
            self.out.cov['traces_validated_against_impl'] += summ.get('sessions', 0)
            program = json.load(open(prog_path(prog)))
            self.validate(tr, 'replay of model history (%s, mode %s)' % (prog, mode),
                          lambda ev, hists=hists, program=program: dict(program=program, history=hists[int(ev['sid'].rsplit('.h', 1)[1])]))

    # ---- C for random programs
    def random(self, nprog, nsess, maxreq, mode='L'):
        tr = os.path.join(self.d, 'random_%s.ndjson' % mode)
        p = core.run_harness(['vise-random', tr, str(nprog), str(nsess), str(maxreq), mode], env=getattr(self, 'random_env', None))
        summ = harness_summary(p)
        self.out.cov['traces_validated_against_impl'] += summ.get('sessions', 0)
        progs, reqs = {}, {}
        for line in open(tr):
            if line.startswith('{"ev":"prog"'):
                pr = json.loads(line)['prog']
                progs[pr['name']] = pr
            elif '"ev":"req"' in line[:40]:
                ev = json.loads(line)
                reqs.setdefault(ev['sid'], []).append((ev['req'], ev['input'], ev['picks'], ev['mode']))

        def case_of(ev):
            sid = ev['sid']
            rs = [x for x in sorted(reqs.get(sid, [])) if x[0] <= ev['req']]
            return dict(program=progs[sid.rsplit('.s', 1)[0]],
                        history=dict(inputs=[dec(x[1]) for x in rs], picks=[x[2] for x in rs], mode=rs[-1][3] if rs else mode, tail=False))
        self.validate(tr, 'seeded random program (mode %s)' % mode, case_of)

    def pairs_model(self, maxreq, programs, stores='mem,fs,pg', limit=4000):
        """every TLC-generated history of the given model programs served long-lived AND persisted (C07_Equiv on model histories)"""
        for prog in programs:
            pj = json.load(open(prog_path(prog)))
            cfg = 'genp_%s.cfg' % prog
            open(os.path.join(self.w, cfg), 'w').write(mc_cfg('L', maxreq, 8 + pj['flagcount'], emit=True, cap=pj.get('cachesize', 0)))
            hp = os.path.join(self.d, 'phist_%s.ndjson' % prog)
            hists = []
            with open(hp, 'w') as f:
                def sink(o):
                    if len(hists) < limit:
                        h = to_history(o, tail=False)
                        hists.append(h)
                        f.write(json.dumps(h) + '\n')
                r = core.tlc(self.w, 'ViseMC', cfg, workers=1, timeout=3000, mbt_sink=sink, env={'VERIF_PROG': prog_path(prog)})
            core.require_tlc_ok(r, 'ViseMC generation %s' % prog)
            self.out.add_tlc('ViseMC behaviour generation for paired runs %s MaxReq=%d' % (prog, maxreq), r)
            tr = os.path.join(self.d, 'ptrace_%s.ndjson' % prog)
            p = core.run_harness(['vise-pairs-hist', prog_path(prog), hp, tr, stores])
            summ = harness_summary(p)
            self.out.cov['traces_validated_against_impl'] += summ.get('pairs', 0) * 2
            self.validate(tr, 'model history served long-lived and persisted (%s)' % prog,
                          lambda ev: dict(program=pj, history=hists[int(ev['sid'].rsplit('.h', 1)[1])],
                                          pair=dict(kind=ev.get('kind', 'mode'), store=ev.get('store'), loop=loop_params(ev) if ev.get('kind') == 'loop' else None,
                                                    partner=hists[int(ev['partner'].rsplit('.h', 1)[1])] if ev.get('partner') else None)))

    def loop_fixed(self, programs, maxlen, stores='mem,fs,pg'):
        """engine.Loop on model programs whose sessions end in every way (gracefully, silently, terminated by external code):
        every input history up to maxlen over the program's alphabet, first alternative of every external call, served by the
        paired driver (long-lived, persisted, and every second one through engine.Loop with the rest from the store)"""
        import itertools
        for prog in programs:
            pj = json.load(open(prog_path(prog)))
            alpha = [x for x in pj['inputs'] if x != '']
            hists = []
            for n in range(0, maxlen):
                for tail in itertools.product(alpha + [''], repeat=n):
                    for picks in ([], [[1]] * (n + 1)):
                        hists.append(dict(inputs=[''] + list(tail), picks=picks, mode='L', tail=False))
            hp = os.path.join(self.d, 'lhist_%s.ndjson' % prog)
            open(hp, 'w').write(''.join(json.dumps(h) + '\n' for h in hists))
            tr = os.path.join(self.d, 'ltrace_%s.ndjson' % prog)
            p = core.run_harness(['vise-pairs-hist', prog_path(prog), hp, tr, stores])
            summ = harness_summary(p)
            self.out.cov['traces_validated_against_impl'] += summ.get('pairs', 0) * 2
            nloop = sum(1 for line in open(tr) if '"kind":"loop"' in line)
            silent = sum(1 for line in open(tr) if '"kind":"loop"' in line and any(a['out'] == '' and not a['err'] and not a['ferr'] for a in json.loads(line)['a']))
            self.out.cov.setdefault('loop_lines', {})[prog] = dict(lines=nloop, with_a_silent_successful_request=silent)
            self.validate(tr, 'fixed histories served long-lived, persisted and through engine.Loop (%s)' % prog,
                          lambda ev, pj=pj, hists=hists: dict(program=pj, history=hists[int(ev['sid'].rsplit('.h', 1)[1])],
                                          pair=dict(kind=ev.get('kind', 'mode'), store=ev.get('store'), loop=loop_params(ev) if ev.get('kind') == 'loop' else None,
                                                    partner=hists[int(ev['partner'].rsplit('.h', 1)[1])] if ev.get('partner') else None)))

    def examples(self, nsess, maxreq, mode='LP'):
        """the repository's example applications, assembled by the real assembler, stub functions for their LOAD symbols"""
        tr = os.path.join(self.d, 'examples.ndjson')
        p = core.run_harness(['vise-examples', os.path.join(core.REPO, 'examples'), tr, str(nsess), str(maxreq), mode])
        summ = harness_summary(p)
        self.out.cov['traces_validated_against_impl'] += summ.get('sessions', 0)
        self.out.cov['example_apps'] = summ.get('apps', 0)
        progs, reqs = {}, {}
        for line in open(tr):
            if line.startswith('{"ev":"prog"'):
                pr = json.loads(line)['prog']
                progs[pr['name']] = pr
            elif '"ev":"req"' in line[:40]:
                ev = json.loads(line)
                reqs.setdefault(ev['sid'], []).append((ev['req'], ev['input'], ev['picks'], ev['mode']))

        def case_of(ev):
            sid = ev['sid']
            rs = [x for x in sorted(reqs.get(sid, [])) if x[0] <= ev['req']]
            return dict(example=sid.rsplit('.s', 1)[0], program=progs[sid.rsplit('.s', 1)[0]],
                        history=dict(inputs=[dec(x[1]) for x in rs], picks=[x[2] for x in rs], mode=rs[-1][3] if rs else 'L', tail=False))
        self.validate(tr, 'example application', case_of)

    def pairs_stage(self, nprog, nsess, maxreq, stores='mem,fs,pg'):
        tr = os.path.join(self.d, 'pairs.ndjson')
        p = core.run_harness(['vise-pairs', tr, str(nprog), str(nsess), str(maxreq), stores], env=getattr(self, 'pairs_env', None))
        summ = harness_summary(p)
        if summ.get('hang'):
            pass
        self.out.cov['traces_validated_against_impl'] += summ.get('pairs', 0) * 2
        progs = {}
        for line in open(tr):
            if line.startswith('{"ev":"prog"'):
                pr = json.loads(line)['prog']
                progs[pr['name']] = pr

        def case_of(ev):
            sid = ev['sid']
            base = sid.split('.s')[0]
            if ev.get('ev') == 'pair':
                return dict(program=progs[base], pair=dict(kind=ev['kind'], inputs=[dec(x) for x in ev['inputs']], extra=[dec(x) for x in ev['extra']],
                                                           store=ev['store'], loop=loop_params(ev) if ev['kind'] == 'loop' else None, modeb=ev.get('modeb'), pseed=ev.get('pseed', '')), history=dict(inputs=[dec(x) for x in ev['inputs']], picks=[], mode='L'))
            return dict(program=progs[base], history=dict(inputs=[], picks=[], mode='L'), note='event inside a paired run; see sid')
        self.validate(tr, 'paired runs (long-lived vs persisted, with vs without refused inputs)', case_of)

    def known_cases(self):
        """Replay the canonical reproducer of every known finding of this property (each must still be matched)."""
        for k in core.known_for(self.pid):
            cp = os.path.join(core.VERIF, k['canonical_case'])
            case = json.load(open(cp))
            pp = os.path.join(self.d, 'kc_prog_%s.json' % k['id'])
            json.dump(case['program'], open(pp, 'w'))
            hp = os.path.join(self.d, 'kc_hist_%s.ndjson' % k['id'])
            open(hp, 'w').write(json.dumps(case['history']) + '\n')
            tr = os.path.join(self.d, 'kc_trace_%s.ndjson' % k['id'])
            core.run_harness(['vise-run', pp, hp, tr, case['history'].get('mode', 'L')])
            before = set(self.out.known_hit)
            self.validate(tr, 'canonical case of ' + k['id'], lambda ev: dict(program=case['program'], history=case['history']))
            if k['id'] not in self.out.known_hit:
                self.out.cov.setdefault('known_findings_not_reproduced', []).append(k['id'])
                log('note: known finding %s no longer reproduces on its canonical case (fixed?)' % k['id'])

    def validate(self, tr, source, case_of):
        viol, st = core.validate_trace('ViseTrace', 'vt.cfg', tr, workdir=self.w, chunk=2500, par=core.NCPU, adaptive=True)
        self.out.cov['evaluations'] += st['events']
        n = 0
        ctx = dict(croak=set(), req={})
        for line in open(tr):
            if '"ev":"instr"' in line[:40]:
                ev = json.loads(line)
                if ev['pre']['code']:
                    i = ev['pre']['code'][0]
                    moved = (ev['pre']['path'], ev['pre']['idx']) != (ev['post']['path'], ev['post']['idx'])
                    self.pairs.add((i['op'], i['ac'], moved, len(ev['ext']), ev['last']))
                    if i['op'] == 'CROAK' and len(ev['post']['c']['frames']) < len(ev['pre']['c']['frames']):
                        ctx['croak'].add((ev['sid'], ev['req']))
                n += 1
                if n == 40:
                    self.out.sample(dict(kind='recorded run-loop iteration', event=slim(ev)))
            elif '"ev":"req"' in line[:40]:
                ev = json.loads(line)
                if ev['mode'] != 'L' and (ev['post2']['c'].get('badutf') or ev['post']['c'].get('badutf')):
                    ctx.setdefault('badutf', {}).setdefault(ev['sid'], []).append(ev['req'])
                ctx['req'][(ev['sid'], ev['req'])] = dict(panic=ev['panic'], fpanic=ev['fpanic'], err=ev['err'], preterm=6 in ev['pre']['flags'])
                self.pairs.add(('req', ev['mode'], ev['incls'], ev['cont'], ev['err'], ev['outlen'] > 0))
                if n % 50 == 7:
                    self.out.sample(dict(kind='recorded request', event=slim(ev)), limit=8)
        for inv, idx, ev in viol:
            if inv.startswith('Drift_'):
                self.out.cov['model_drift_events'] = self.out.cov.get('model_drift_events', 0) + 1
                self.out.drift(dict(invariant=inv, source=source, event=slim(ev)))
                continue
            if inv == 'Continuity':
                raise Infra('continuity failure in %s at event %d: the hook missed a step' % (source, idx))
            k = self.matcher(inv, ev, ctx)
            if k:
                self.out.known(k['id'], k['what'])
                continue
            case = case_of(ev)
            self.out.violation('%s violated by the real engine in %s: %s' % (inv, source, json.dumps(slim(ev))[:400]),
                               dict(property=self.pid, kind='vise-history', invariant=inv, event=slim(ev), **case))

    def finish(self, rule):
        self.out.cov['distinct_nontrivial'] = len(self.pairs)
        self.out.cov['rule'] = rule + ' distinct = (opcode, target class, moved?, #resource interactions, ends the run?) combinations observed in real run-loop iterations.'
        return self.out.finish()


def dec(s):
    """inputs stay in the recorder's injective form ("hex:..." for anything outside printable ASCII): JSON strings cannot carry raw
    bytes, the harness decodes the form again when it reads a history"""
    return s


def known_matcher(pid):
    """Known-finding matchers of the VM/engine family (see known_findings.json)."""
    ks = {k['matcher']: k for k in core.known_for(pid)}

    def m(inv, ev, ctx):
        key = (ev.get('sid'), ev.get('req'))
        if inv in ('C08_Levels', 'C08_ReqLevels') and 'croak-drops-scopes' in ks:
            if ev.get('ev') == 'instr' and ev['pre']['code'] and ev['pre']['code'][0]['op'] == 'CROAK':
                return ks['croak-drops-scopes']
            if ev.get('ev') == 'req' and key in ctx['croak']:
                return ks['croak-drops-scopes']
        # a cached value that is not valid UTF-8 (logged by the recorder) makes the stored session undecodable: the request that
        # stores it cannot be resumed, and from the next request on the session is a silently restarted one
        if inv in ('C08_Resumable', 'C08_ReqAccount', 'C08_ReqLevels'):
            if 'non-utf8-value' in ks and any(r <= ev.get('req', -1) for r in ctx.get('badutf', {}).get(ev.get('sid'), [])):
                return ks['non-utf8-value']
        # kept flushing persister: a session that is new to the store directly after an OVER-LONG refused request of another session
        # (Finish of an uninitialised engine neither saves nor flushes) is created from that other session's content
        if inv == 'C17_AsIfNeverSent' and 'kept-persister-after-overlong' in ks and ev.get('ev') == 'pair':
            if ev.get('modeb') == 'R' and ev.get('flush') and ev.get('after') == 'long':
                return ks['kept-persister-after-overlong']
        if inv in ('C08_NoPanic', 'C08_ReqNoPanic') and 'maxlevel-panic' in ks:
            if ctx['req'].get(key, {}).get('panic') == 'maxlevel':
                return ks['maxlevel-panic']
        if inv == 'C01_FlushFits' and 'exit-after-size-check' in ks and ev.get('ev') == 'req':
            # graceful end (session unwound by this Flush) -> the excess is the appended exit value
            if not ev['cont'] and not ev['err'] and ev['post2']['path'] == [] and ev['post']['path'] != []:
                return ks['exit-after-size-check']
        if inv == 'C20_Blocked' and 'blocked-dirty-leftover' in ks and ev.get('ev') == 'req':
            if 4 in ev['pre']['flags'] and 6 in ev['pre']['flags']:
                # the finding is specific: the request that terminated the session FAILED (Exec returned an error after TERMINATE was
                # set, so no Flush cleared DIRTY).  A DIRTY left behind any other way (e.g. by a Flush) is not this finding.
                r = ev['req'] - 1
                while r >= 0 and ctx['req'].get((ev['sid'], r), {}).get('preterm'):
                    r -= 1
                if r >= 0 and ctx['req'].get((ev['sid'], r), {}).get('err'):
                    return ks['blocked-dirty-leftover']
        return None
    return m


def slim(ev):
    """digest of an event for messages / evidence"""
    if ev.get('ev') == 'instr':
        def b(s):
            return dict(path=s['path'], idx=s['idx'], flags=s['flags'], code=[' '.join(str(i[k]) for k in ('op', 'a', 'b', 'n', 'm')) for i in s['code'][:4]],
                        frames=[[x['k'] + ':' + str(x['len']) for x in fr] for fr in s['c']['frames']], used=s['c']['used'], input=s['input']['v'] if s['input']['set'] else None,
                        mapped=[x['k'] for x in s['mapped']], errp=s['errp']['cls'], lang=s['lang'])
        return dict(ev='instr', sid=ev['sid'], req=ev['req'], seq=ev['seq'], last=ev['last'], panic=ev['panic'], pre=b(ev['pre']), post=b(ev['post']),
                    ext=[[e['kind'], e['sym'], e['ok'], e['len']] for e in ev['ext']])
    if ev.get('ev') == 'req':
        def b(s):
            return dict(path=s['path'], idx=s['idx'], flags=s['flags'], ncode=len(s['code']), frames=[[x['k'] + ':' + str(x['len']) for x in fr] for fr in s['c']['frames']], lang=s['lang'])
        r = {k: v for k, v in ev.items() if k not in ('pre', 'post', 'post2', 'saved', 'ext', 'fext')}
        r.update(pre=b(ev['pre']), post=b(ev['post']), post2=b(ev['post2']))
        return r
    if ev.get('ev') == 'pair' and ev.get('kind') == 'loop':
        return dict(ev='pair', kind='loop', sid=ev['sid'], store=ev['store'], inputs=ev['inputs'], lines=ev['nlines'], lastnl=ev['lastnl'], persist=ev['persist'],
                    a=ev['a'][:8], w=ev['w'][:8], lerr=ev['lerr'], lpanic=ev['lpanic'], rest=ev['rest'][:8])
    if ev.get('ev') == 'pair':
        return dict(ev='pair', kind=ev['kind'], sid=ev['sid'], store=ev['store'], inputs=ev['inputs'], extra=ev['extra'][:12], a=ev['a'][:8], b=ev['b'][:8])
    return ev


def loop_params(ev):
    """what vise-loop-case needs to serve a recorded "loop" line again"""
    return dict(inputs=ev['inputs'], store=ev['store'], lastnl=ev['lastnl'], nfeed=ev['nfeed'], persist=ev['persist'], pseed=ev.get('pseed', ''), picks=ev.get('picks', []))


LOOP_INVS = ('C07_LoopInputs', 'C07_LoopRefines', 'C07_LoopResume', 'C08_LoopNoPanic')


def replay_case(pid, path, trace_invs):
    case = json.load(open(path))
    d = core.scratch('verif-rp-')
    pp = os.path.join(d, 'prog.json')
    json.dump(case['program'], open(pp, 'w'))
    pair = case.get('pair') or {}
    if pair.get('kind') == 'loop' and pair.get('loop'):
        cp = os.path.join(d, 'loopcase.json')
        json.dump(pair['loop'], open(cp, 'w'))
        tr = os.path.join(d, 'loop.ndjson')
        core.run_harness(['vise-loop-case', pp, cp, tr])
        w = core.spec_copy({'vt.cfg': trace_cfg([i for i in trace_invs if i in LOOP_INVS])})
        viol, _ = core.validate_trace('ViseTrace', 'vt.cfg', tr, workdir=w)
        if viol:
            log('VIOLATION property=%s replay=%s' % (pid, path))
            log('  %s: %s' % (viol[0][0], json.dumps(slim(viol[0][2]))[:500]))
            return 1
        log('replay: property holds on this case')
        return 0
    if pair.get('kind') == 'insert' and pair.get('modeb') == 'K':
        cp = os.path.join(d, 'keptcase.json')
        json.dump(dict(inputs=pair['inputs'], extra=pair['extra'], store=pair.get('store') or 'mem', pseed=pair.get('pseed', '0')), open(cp, 'w'))
        tr = os.path.join(d, 'kept.ndjson')
        core.run_harness(['vise-kept-case', pp, cp, tr])
        w = core.spec_copy({'vt.cfg': trace_cfg(['C17_AsIfNeverSent'])})
        viol, _ = core.validate_trace('ViseTrace', 'vt.cfg', tr, workdir=w)
        if viol:
            log('VIOLATION property=%s replay=%s' % (pid, path))
            log('  %s: %s' % (viol[0][0], json.dumps(slim(viol[0][2]))[:500]))
            return 1
        log('replay: property holds on this case')
        return 0
    if pair.get('kind') in ('mode', 'reuse') and 'picks' in case.get('history', {}) and (pair['kind'] == 'mode' or pair.get('partner')):
        # two-run comparisons are replayed as such: both modes of the history, and (reuse) both sessions through one kept persister
        hp = os.path.join(d, 'hists.ndjson')
        hs = ([pair['partner']] if pair['kind'] == 'reuse' else []) + [case['history']]
        open(hp, 'w').write(''.join(json.dumps(dict(h, tail=False)) + '\n' for h in hs))
        tr = os.path.join(d, 'pairs.ndjson')
        core.run_harness(['vise-pairs-hist', pp, hp, tr, pair.get('store') or 'mem'] + (['pairall'] if pair['kind'] == 'reuse' else []))
        w = core.spec_copy({'vt.cfg': trace_cfg([i for i in trace_invs if i in ('C07_Equiv', 'C07_Reuse', 'C17_AsIfNeverSent')])})
        viol, _ = core.validate_trace('ViseTrace', 'vt.cfg', tr, workdir=w)
        if viol:
            log('VIOLATION property=%s replay=%s' % (pid, path))
            log('  %s: %s' % (viol[0][0], json.dumps(slim(viol[0][2]))[:500]))
            return 1
        log('replay: property holds on this case')
        return 0
    hp = os.path.join(d, 'hist.ndjson')
    h = dict(case['history'], tail=False)
    open(hp, 'w').write(json.dumps(h) + '\n')
    tr = os.path.join(d, 'trace.ndjson')
    core.run_harness(['vise-run', pp, hp, tr, h.get('mode', 'L')])
    w = core.spec_copy({'vt.cfg': trace_cfg(trace_invs + ['Continuity'])})
    viol, _ = core.validate_trace('ViseTrace', 'vt.cfg', tr, workdir=w)
    bad = [v for v in viol if v[0].startswith(pid)]
    if bad:
        log('VIOLATION property=%s replay=%s' % (pid, path))
        log('  %s: %s' % (bad[0][0], json.dumps(slim(bad[0][2]))[:500]))
        return 1
    log('replay: property holds on this case')
    return 0


def selftest_generic(pid, trace_invs, corrupt, expect):
    """Record a small real trace, corrupt it with `corrupt(rows)`, and require the invariant `expect` (and Continuity for a deleted line)."""
    d = core.scratch('verif-st-')
    tr = os.path.join(d, 't.ndjson')
    core.run_harness(['vise-random', tr, '6', '6', '6', 'LP'], env={'VERIF_SEED': '11'})
    rows = core.read_ndjson(tr)
    corrupt(rows)
    for j in range(len(rows) - 1, 1, -1):      # delete one mid-request iteration
        if rows[j].get('ev') == 'instr' and rows[j]['seq'] > 0 and rows[j - 1].get('ev') == 'instr' and rows[j - 1]['seq'] > 0:
            del rows[j - 1]
            break
    core.write_ndjson(tr, rows)
    w = core.spec_copy({'vt.cfg': trace_cfg(trace_invs + ['Continuity'])})
    viol, _ = core.validate_trace('ViseTrace', 'vt.cfg', tr, workdir=w)
    names = {v[0] for v in viol}
    if expect not in names or 'Continuity' not in names:
        log('selftest %s FAILED: expected %s and Continuity, got %s' % (pid, expect, sorted(names)))
        return 2
    log('selftest %s ok: corrupted field -> %s, deleted line -> Continuity' % (pid, expect))
    return 0
