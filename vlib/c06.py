"""C06 - signal flags steer control flow (CATCH/CROAK), reserved flags are tamper-proof, TERMINATE blocks execution."""
from . import vise, core
PID = 'C06'
MC = ['C06_TerminateBlocks']
TR = ['C06_Flags', 'C06_Ctl', 'C06_Blocked', 'C06_ReqCtl']


def run(tier):
    f = vise.Family(PID, tier, MC, TR, ['flags', 'nav', 'ends', 'wideflags', 'rempty'], modes=('L', 'P'))
    f.out.assumptions = ['external results (FlagSet/FlagReset incl. reserved indices) logged by the recording resource',
                         'READIN/INMATCH are judged by C03, not here']
    t = f.thorough
    f.out.stage('A model check'); f.model_check(7 if t else 5)
    f.out.stage('B+C model histories on the real engine'); f.replay_model(5 if t else 4)
    f.out.stage('C random programs'); f.random(300 if t else 40, 30 if t else 20, 12, 'LP')
    return f.finish('Flag bits before/after every recorded iteration compared with the write filter and the CATCH/CROAK rules of Vise.tla;')


def replay(path):
    return vise.replay_case(PID, path, TR)


def selftest():
    def corrupt(rows):
        for r in rows:
            if r.get('ev') == 'instr' and any(e['kind'] == 'func' and e['ok'] for e in r['ext']) and 3 not in r['post']['flags']:
                r['post']['flags'] = sorted(r['post']['flags'] + [3])      # a reserved flag written by external code
                return
        raise core.Infra('selftest: no external call in the sample trace')
    return vise.selftest_generic(PID, TR, corrupt, 'C06_Flags')
