"""C02 - paginated sink content is complete, ordered and navigable."""
from . import render, core
PID = 'C02'
MINE = ['C02_NoPanic', 'C02_PastEndIsError', 'C02_OfferedRenders', 'C02_NavOffered', 'C02_Partition', 'C02_StaticEverywhere', 'C02_FitsThenShown']


def run(tier):
    out = render.run(PID, tier, ['C02_NoPanic', 'C02_PastEndIsError'], MINE)
    out.assumptions = ['rows are uniform strings of distinct letters; pages are parsed back into (static text, sink lines, menu lines) by the recorder',
                       'a fresh Page/Menu/Sizer per page index (as in persisted operation)',
                       'contract violations where the real page family equals the pinned algorithm transcription are the two recorded known findings']
    return out.finish()


def replay(path):
    return render.replay(PID, path, MINE)


def selftest():
    def corrupt(rows):
        for r in rows:
            ok = [p for p in r['pages'] if p['kind'] == 'ok']
            if len(ok) >= 2 and ok[1]['rows']:
                ok[1]['rows'] = ok[1]['rows'] + ok[1]['rows'][-1:]      # a duplicated row at a page end
                return
    return render.selftest(PID, MINE, corrupt, 'C02_Partition')
