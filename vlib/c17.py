"""C17 - refused input (bad format / over-long) and Flush-before-Exec have no effect on the session."""
from . import vise, core
PID = 'C17'
MC = ['C17_RejectNoEffect']
TR = ['C17_Refused', 'C17_RefusedOutput', 'C17_AsIfNeverSent']


def run(tier):
    f = vise.Family(PID, tier, MC, TR, ['nav', 'ends', 'scope'], modes=('L', 'P'))
    f.out.assumptions = ['input classes are computed by the harness from the documented pattern ^\\+?[a-zA-Z0-9].*$ and the 255-byte limit, independently of vm.ValidInput',
                         'paired runs use the same external-result schedule (indexed by accepted request and call number)']
    t = f.thorough
    f.out.stage('A model check'); f.model_check(6 if t else 4)
    f.out.stage('B+C model histories (refused inputs at every position) on the real engine'); f.replay_model(5 if t else 3)
    f.out.stage('C random programs with junk inputs'); f.random(300 if t else 40, 30 if t else 20, 14, 'LP')
    f.out.stage('C paired runs: history with refused inputs inserted vs without'); f.pairs_stage(80 if t else 12, 12, 10)
    return f.finish('Refused inputs (BAD, LONG) at every position of every model history to the bound; random insertion of refused inputs into random '
                    'histories with transcript comparison, long-lived and persisted mode over mem / fs / pg-fake;')


def replay(path):
    return vise.replay_case(PID, path, TR)


def selftest():
    def corrupt(rows):
        for r in rows:
            if r.get('ev') == 'req' and r['incls'] == 'bad':
                r['post']['idx'] += 1
                return
        raise core.Infra('selftest: no refused input in the sample trace')
    return vise.selftest_generic(PID, TR, corrupt, 'C17_Refused')
