"""C17 - refused input (bad format / over-long) and Flush-before-Exec have no effect on the session."""
from . import vise, core
PID = 'C17'
MC = ['C17_RejectNoEffect']
TR = ['C17_Refused', 'C17_RefusedFirst', 'C17_RefusedOutput', 'C17_AsIfNeverSent']


def run(tier):
    f = vise.Family(PID, tier, MC, TR, ['nav', 'ends', 'scope', 'first'], modes=('L', 'P'), matcher=vise.known_matcher(PID))
    f.pairs_env = {'VERIF_KEPT_INSERT': '1', 'VERIF_VALID': '1'}     # histories with refused inputs also through a kept flushing persister
    f.random_env = {'VERIF_VALID': '1'}           # a third of the generated applications accept one more input format (engine.AddValidInput)
    f.out.assumptions = ['input classes are computed by the harness from the documented pattern ^\\+?[a-zA-Z0-9].*$ and the 255-byte limit, independently of vm.ValidInput; applications with an extra format (engine.AddValidInput) accept ^#[0-9]+$ as well - for every engine of the process from the first registration on, as the library\'s package-level registry has it',
                         'paired runs use the same external-result schedule (indexed by accepted request and call number)']
    t = f.thorough
    f.out.stage('known-finding canonical case'); kept_case(f)
    f.out.stage('A model check'); f.model_check(6 if t else 4)
    f.out.stage('B+C model histories (refused inputs at every position) on the real engine'); f.replay_model(5 if t else 3)
    f.out.stage('C random programs with junk inputs'); f.random(300 if t else 40, 30 if t else 20, 14, 'LP')
    f.out.stage('C paired runs: history with refused inputs inserted vs without'); f.pairs_stage(80 if t else 12, 12, 10)
    return f.finish('Refused inputs (BAD, LONG) at every position of every model history to the bound; random insertion of refused inputs into random '
                    'histories with transcript comparison, long-lived and persisted mode over mem / fs / pg-fake;')


def kept_case(f):
    """canonical case of KF-kept-persister-after-overlong-input: two histories through one flushing persister"""
    import json, os
    for k in core.known_for(PID):
        case = json.load(open(os.path.join(core.VERIF, k['canonical_case'])))
        pp = os.path.join(f.d, 'kc_prog.json'); json.dump(case['program'], open(pp, 'w'))
        hp = os.path.join(f.d, 'kc_hists.ndjson')
        open(hp, 'w').write(''.join(json.dumps(h) + '\n' for h in case['histories']))
        tr = os.path.join(f.d, 'kc_pairs.ndjson')
        core.run_harness(['vise-pairs-hist', pp, hp, tr, 'mem', 'pairall'])
        f.validate(tr, 'canonical case of ' + k['id'], lambda ev: dict(program=case['program'], history=case['histories'][1], pair=dict(kind='insert', store='mem', partner=case['histories'][0])))
        if k['id'] not in f.out.known_hit:
            f.out.cov.setdefault('known_findings_not_reproduced', []).append(k['id'])
            core.log('note: known finding %s no longer reproduces on its canonical case (fixed?)' % k['id'])


def replay(path):
    return vise.replay_case(PID, path, TR)


def selftest():
    def corrupt(rows):
        for r in rows:
            if r.get('ev') == 'req' and r['incls'] == 'bad':
                r['post']['idx'] += 1
                return
        raise core.Infra('selftest: no refused input in the sample trace')
    return vise.selftest_generic(PID, TR, corrupt, 'C17_Refused')
