"""C07 - a persisted session resumes exactly where an uninterrupted one would be."""
from . import vise, core
PID = 'C07'
MC = []
TR = ['C07_Equiv', 'C07_Snapshot', 'C07_Reuse', 'C07_ReuseConsistent', 'C07_ReuseExit', 'C07_LoopInputs', 'C07_LoopRefines', 'C07_LoopResume']


def run(tier):
    f = vise.Family(PID, tier, MC, TR, ['nav', 'scope', 'flags', 'ends'], modes=('P',))
    f.out.assumptions = ['Postgres = the real pgDb over an in-process transactional fake of the driver interface; gdbm cannot be built here',
                         'transcripts are compared up to the end of the session (first stop or error)',
                         'persister reuse is judged only WithFlush (which promises an empty persister after every Save); a kept persister without it still holds the previous session']
    t = f.thorough
    f.out.stage('A model check (product of long-lived and persisted copy)'); vise_eq(f, 6 if t else 4)
    f.out.stage('B+C model histories in persisted mode (snapshot round trip)'); f.replay_model(5 if t else 4)
    f.out.stage('B+C model histories served in both modes (paired)'); f.pairs_model(5 if t else 4, ['pages', 'nav', 'capacity', 'lang', 'flags', 'rempty', 'inline', 'msink'] if t else ['pages', 'lang', 'rempty', 'msink'])
    f.out.stage('C engine.Loop on programs that end gracefully, silently and by termination (Loop.tla)'); f.loop_fixed(['ends', 'flags'], 5 if t else 4)
    f.out.stage('C paired runs long-lived vs persisted over mem / fs / pg-fake; two sessions alternating through one reused Persister'); f.pairs_stage(150 if t else 25, 12, 10)
    return f.finish('Every generated history served twice (one long-lived engine; fresh engine + Persister per request) on each store, transcripts compared; '
                    'stored snapshot re-read into fresh objects and compared with the live session after every persisted request;')


def vise_eq(f, maxreq):
    import json, os
    for prog in f.programs:
        nflags = 8 + json.load(open(vise.prog_path(prog)))['flagcount']
        cfg = 'eq_%s.cfg' % prog
        c = dict(vise.BASE_CONST, MaxReq=maxreq, NFlags=nflags)
        txt = core.gen_cfg(constants=c, invariants=['C07_ModeEquiv', 'C07_SnapshotRoundTrip'], view='View')
        txt = txt.replace('CONSTANTS\n', 'CONSTANTS\n  ' + '\n  '.join(vise.SUBST) + '\n')
        open(os.path.join(f.w, cfg), 'w').write(txt)
        r = core.tlc(f.w, 'ViseEq', cfg, workers=core.NCPU, timeout=3000, env={'VERIF_PROG': vise.prog_path(prog)})
        core.require_tlc_ok(r, 'ViseEq %s' % prog)
        if r.violated:
            raise core.Infra('ViseEq %s: the specification violates %s (spec error)\n%s' % (prog, r.violated, r.out[-3000:]))
        f.out.add_tlc('ViseEq %s MaxReq=%d' % (prog, maxreq), r)


def replay(path):
    return vise.replay_case(PID, path, TR)


def selftest():
    def corrupt(rows):
        for r in rows:
            if r.get('ev') == 'req' and r['mode'] == 'P' and r['havesave']:
                r['saved']['idx'] += 1
                return
        raise core.Infra('selftest: no persisted request in the sample trace')
    return vise.selftest_generic(PID, TR, corrupt, 'C07_Snapshot')
