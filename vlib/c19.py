"""C19 - independent sessions can be served concurrently without interference (and without data races)."""
import json, os
from . import core
from .core import Outcome, Infra, log
PID = 'C19'


def summ(p):
    return json.loads([x for x in p.stdout.splitlines() if x.startswith('SUMMARY ')][-1][8:])


def conc_saves(out, w, d):
    import shutil
    from . import c12
    if not shutil.which('strace'):
        raise Infra('strace not available')
    exe = core.build_harness()
    base = os.path.join(d, 'saves')
    os.makedirs(base)
    for sid in ('alice', 'bob'):
        c12.result_of(core.run_harness(['fs-req', base, sid, '']))
    logp = os.path.join(d, 'two.log')
    p = c12.strace(exe, ['fs-two', base, 'alice', 'bob', '1'], logp)
    if p.returncode != 0:
        raise Infra('fs-two failed: %s' % p.stderr[-400:])
    ops = [op for n, o, op, _ in c12.parse(logp, base) if op is not None]
    cut = next((i for i, op in enumerate(ops) if op['f'] == '__marker__'), None)
    if cut is None:
        raise Infra('fs-two: marker not found in the strace log')
    halves = []
    for part in (ops[:cut], ops[cut + 1:]):
        first = next((i for i, op in enumerate(part) if op['op'] in ('opentrunc', 'create', 'write', 'rename', 'unlink')), None)
        if first is None:
            raise Infra('fs-two: a save without file operations')
        halves.append(part[first:])
    ren = {'@alice': 'SA', '@bob': 'SB'}
    norm = lambda f: ren.get(f, f)
    mops = [[dict(op=o['op'], f=norm(o['f']), g=norm(o['g']), n=o['n']) for o in h if o['f'] != '__marker__'] for h in halves]
    totals = [sum(o['n'] for o in h if o['op'] == 'write') for h in mops]
    opsfile = os.path.join(d, 'ops2.json')
    json.dump(dict(a=mops[0], b=mops[1], totala=totals[0], totalb=totals[1]), open(opsfile, 'w'))
    open(os.path.join(w, 'fsc.cfg'), 'w').write(core.gen_cfg(invariants=['C19_SavesIndependent', 'C19_NoForeignBytes']))
    r = core.tlc(w, 'FsSaveConc', 'fsc.cfg', workers=1, timeout=900, env={'VERIF_OPS': opsfile})
    core.require_tlc_ok(r, 'FsSaveConc')
    out.add_tlc('FsSaveConc: every interleaving of two recorded saves (%d + %d operations)' % (len(mops[0]), len(mops[1])), r)
    out.sample(dict(kind='file operations of two real saves in one process (strace), interleaved by FsSaveConc.tla', a=mops[0], b=mops[1]))
    out.cov['evaluations'] += 1
    if r.violated:
        out.violation('%s: some interleaving of the file operations the real code issues for two simultaneous saves into one directory loses or mixes a record: A=%s B=%s' % (
            r.violated, json.dumps(mops[0]), json.dumps(mops[1])),
            dict(property=PID, kind='conc-saves', invariants=r.violated, a=mops[0], b=mops[1], note='the free-running stage (mode F) reproduces it on real goroutines'))


def run(tier):
    out = Outcome(PID, tier)
    thorough = tier == 'thorough'
    out.assumptions = ['the "no data race" half of the property is observed by the Go race detector on the real code (harness built with -race); TLC covers interleaving semantics and slice aliasing',
                       'sessions share one resource object that hands the SAME byte slices (with spare capacity) to every session; external function results are a deterministic function of (history, request, call)',
                       'engine.AddValidInput (a package-level registry by design) is not part of the workloads']
    w = core.spec_copy()
    d = core.scratch('verif-c19-')
    # ---- A: interleaving model with Go-slice aliasing
    out.stage('A model check')
    scheds = []
    for spare in (0, 2):
        open(os.path.join(w, 'sess%d.cfg' % spare), 'w').write(core.gen_cfg(constants=dict(Spare=spare, CopyOnCatch=True), invariants=['NonInterference', 'NoSharedWrite'],
                                                                             action_constraint='Emit'))
        sink = scheds.append if spare == 2 else None
        r = core.tlc(w, 'Sessions', 'sess%d.cfg' % spare, workers=1, timeout=900, mbt_sink=sink)
        core.require_tlc_ok(r, 'Sessions')
        if r.violated:
            raise Infra('Sessions: the repaired design violates %s (spec error)' % r.violated)
        out.add_tlc('Sessions Spare=%d CopyOnCatch=TRUE, all interleavings' % spare, r)
    out.cov['exhaustive'] = True
    # ---- A2: two sessions saved at the same time into one filesystem directory: the real file operations of each save
    #          (strace), every interleaving of them in the model
    out.stage('A2 interleaved saves of two sessions (recorded file operations)')
    conc_saves(out, w, d)
    # ---- B: every complete interleaving of the model, reproduced on the real VM through the hook gate
    out.stage('B deterministic schedules on the real VM')
    sp = os.path.join(d, 'scheds.ndjson')
    uniq = sorted({tuple(s) for s in scheds})
    with open(sp, 'w') as f:
        for s in uniq:
            for lead in ([], [1], [2], [1, 2], [2, 1]):          # the real session has one more iteration (MOVE root) than the model
                f.write(json.dumps(lead + list(s)) + '\n')
    p = core.run_harness(['sched-run', sp, '64'], timeout=1800)
    s = summ(p)
    out.cov['traces_validated_against_impl'] += s['schedules']
    out.cov['evaluations'] += s['schedules'] * 2
    out.sample(dict(kind='TLC interleaving replayed with the run-loop hook as scheduler gate', schedule=list(uniq[len(uniq) // 2])))
    if s['mismatches']:
        out.violation('C19_NonInterference: under a deterministic interleaving the sessions differ from their solo runs or shared application data was written: %s' % json.dumps(s['examples'])[:700],
                      dict(property=PID, kind='schedule', examples=s['examples'], spare=64))
    # ---- B': free-running goroutines under the race detector
    out.stage("B' free-running sessions under the race detector")
    kinds = set()
    runs = [(16, 1500, 64), (8, 800, 0), (2, 600, 64)] if not thorough else [(16, 6000, 64), (16, 3000, 0), (8, 3000, 8), (2, 3000, 64), (4, 3000, 1)]
    for workers, jobs, spare in runs:
        p = core.run_harness(['race-run', os.path.join(core.SPEC, 'programs'), str(workers), str(jobs), str(spare)], race=True, timeout=3000, check=False,
                             env={'GORACE': 'halt_on_error=0 exitcode=66'})
        if p.returncode not in (0, 66):
            raise Infra('race-run failed rc=%s: %s' % (p.returncode, p.stderr[-1500:]))
        s = summ(p)
        out.cov['evaluations'] += s['sessions']
        out.cov['traces_validated_against_impl'] += s['sessions']
        kinds.add((workers, spare))
        nrace = p.stderr.count('WARNING: DATA RACE')
        out.cov.setdefault('race_runs', []).append(dict(workers=workers, sessions=s['sessions'], spare=spare, data_races=nrace, mismatches=s['mismatches'], shared_data_modified=s['shared_data_modified']))
        if nrace:
            first = p.stderr[p.stderr.index('WARNING: DATA RACE'):][:1800]
            out.violation('C19_NoDataRace: the race detector reports %d data race(s) with %d goroutines, spare capacity %d:\n%s' % (nrace, workers, spare, first),
                          dict(property=PID, kind='race', workers=workers, jobs=jobs, spare=spare, report=first))
        if s['mismatches']:
            out.violation('C19_NonInterference: %d concurrent session(s) differ from their solo runs: %s' % (s['mismatches'], json.dumps(s['examples'])[:700]),
                          dict(property=PID, kind='race', workers=workers, jobs=jobs, spare=spare, examples=s['examples']))
        if s['shared_data_modified']:
            out.violation('C19_NoSharedWrite: shared application data was modified: %s' % s['shared_data_modified'],
                          dict(property=PID, kind='race', workers=workers, jobs=jobs, spare=spare, modified=s['shared_data_modified']))
    out.cov['distinct_nontrivial'] = len(kinds) + len(uniq)
    out.cov['rule'] = ('all interleavings of two sessions in the model replayed deterministically; free-running randomized sessions (model programs + generated, long-lived and persisted) on '
                       '2..16 goroutines with shared slices with and without spare capacity under -race; distinct = schedules + (goroutines, spare) configurations')
    return out.finish()


def replay(path):
    case = json.load(open(path))
    if case['kind'] == 'conc-saves':
        out = Outcome(PID, 'quick')
        conc_saves(out, core.spec_copy(), core.scratch('verif-c19r-'))
        if out.violations:
            log('VIOLATION property=%s replay=%s' % (PID, path))
            return 1
        log('replay: property holds on this case')
        return 0
    if case['kind'] == 'race':
        p = core.run_harness(['race-run', os.path.join(core.SPEC, 'programs'), str(case['workers']), str(case['jobs']), str(case['spare'])], race=True, timeout=3000, check=False)
        s = summ(p)
        if 'WARNING: DATA RACE' in p.stderr or s['mismatches'] or s['shared_data_modified']:
            log('VIOLATION property=%s replay=%s' % (PID, path))
            return 1
    log('replay: property holds on this case')
    return 0


def selftest():
    """the model must exhibit the aliasing defect when CATCH adopts the resource's slice"""
    w = core.spec_copy()
    open(os.path.join(w, 's.cfg'), 'w').write(core.gen_cfg(constants=dict(Spare=2, CopyOnCatch=False), invariants=['NonInterference', 'NoSharedWrite']))
    r = core.tlc(w, 'Sessions', 's.cfg', workers=1, timeout=300)
    if 'NoSharedWrite' not in r.violated and 'NonInterference' not in r.violated:
        log('selftest C19 FAILED: aliasing model does not violate the invariants')
        return 2
    log('selftest C19 ok: with an adopting CATCH and spare capacity TLC violates %s' % r.violated)
    return 0
