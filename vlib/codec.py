"""Shared helpers of C14 / C15 / C16 (Bytecode.tla, Asm.tla)."""
import json, os
from . import core
from .core import Outcome, Infra, log


def trace_cfg(invs):
    return core.gen_cfg(spec='TraceSpec', invariants=invs)


def emit_cases(out, w, module, cfgname, consts, path, name, keep=lambda o: True, transform=lambda o: o):
    open(os.path.join(w, cfgname), 'w').write(core.gen_cfg(constants=consts, action_constraint='Emit'))
    n = [0]
    with open(path, 'w') as f:
        def sink(o):
            if keep(o):
                f.write(json.dumps(transform(o), separators=(',', ':')) + '\n')
                n[0] += 1
        r = core.tlc(w, module, cfgname, workers=1, timeout=3000, mbt_sink=sink)
    core.require_tlc_ok(r, name)
    out.add_tlc(name, r)
    return n[0]


def model_check(out, w, module, cfgname, consts, invs, name):
    open(os.path.join(w, cfgname), 'w').write(core.gen_cfg(constants=consts, invariants=invs))
    r = core.tlc(w, module, cfgname, workers=core.NCPU, timeout=3000)
    core.require_tlc_ok(r, name)
    if r.violated:
        raise Infra('%s: the specification violates %s (spec error)\n%s' % (name, r.violated, r.out[-3000:]))
    out.add_tlc(name, r)
