"""C10 - every storage backend behaves as the same keyed map (mem, fs text/binary keys, Postgres driver over the fake)."""
import json, os
from . import core, kv
from .core import Outcome, Infra, log
PID = 'C10'
MINE = ['C10_NoPanic', 'C10_Result', 'C10_DumpOnce', 'C10_DumpSound', 'C10_DumpComplete']


def run(tier):
    out = Outcome(PID, tier)
    thorough = tier == 'thorough'
    out.assumptions = ['well-formed keys (documented symbol grammar, not ending in a language suffix), dot-free session ids, text and binary values',
                       'Postgres = the real pgDb over the in-process fake; gdbm cannot be built here', 'Dump judged for the data types without translations']
    w = core.spec_copy()
    d = core.scratch('verif-c10-')
    consts = dict(MaxOps=6 if thorough else 5, Keys={'k1', 'k2'}, Sids={'', 's1', 's2'}, Langs={'', 'nor'}, MCTypes={2, 16, 32})
    out.stage('A model check of the keyed-map model')
    open(os.path.join(w, 'kmc.cfg'), 'w').write(core.gen_cfg(constants=consts, view='View',
         invariants=['C10_LockedPutNoChange', 'C10_SealIrreversible', 'C10_SealedIsSafe', 'C10_ReadYourWrite', 'C10_OnlyPutChanges']))
    r = core.tlc(w, 'KvMC', 'kmc.cfg', workers=core.NCPU, timeout=3000)
    core.require_tlc_ok(r, 'KvMC')
    if r.violated:
        raise Infra('KvMC: spec error %s\n%s' % (r.violated, r.out[-2000:]))
    out.add_tlc('KvMC exhaustive', r)
    out.cov['exhaustive'] = True
    out.stage('B model behaviours on every backend')
    g = dict(consts, MaxOps=5 if thorough else 4)
    open(os.path.join(w, 'kgen.cfg'), 'w').write(core.gen_cfg(constants=g, view='View', action_constraint='Emit'))
    sp = os.path.join(d, 'seqs.ndjson')
    seqs = []
    with open(sp, 'w') as f:
        def sink(o):
            seqs.append(o)
            f.write(json.dumps(o, separators=(',', ':')) + '\n')
        r = core.tlc(w, 'KvMC', 'kgen.cfg', workers=1, timeout=3000, mbt_sink=sink)
    # fixed sequences for combinations the bounded model does not reach (listing of non-session types with a session selected, ...)
    def O(op, t=0, s='', k='', v='', b=False):
        return dict(op=op, t=t, s=s, k=k, v=v, b=b)
    extra = []
    for t in (1, 2, 4, 8, 16, 32):
        for sid in ('', 'bob'):
            extra.append([O('setlock', t=t, b=False), O('setsession', s=sid), O('setprefix', t=t), O('put', k='a0', v='x%d%s' % (t, sid)), O('put', k='b1', v='y%d%s' % (t, sid)),
                          O('dump'), O('dump', k='a'), O('setsession', s='alice'), O('dump'), O('get', k='a0')])
    # a listing is a read: whatever language / session / type the handle had before it, it has afterwards (translatable types)
    for t in (2, 4, 8):
        for lg in ('nor', 'eng'):
            extra.append([O('setlock', t=t, b=False), O('setprefix', t=t), O('put', k='k1', v='d%d' % t), O('setlang', s=lg), O('put', k='k1', v='t%d%s' % (t, lg)),
                          O('dump'), O('get', k='k1'), O('put', k='k2', v='u%d%s' % (t, lg)), O('dump', k='k'), O('get', k='k2'), O('setlang', s=''), O('get', k='k2'), O('get', k='k1')])
    # the lock argument is a bit mask: combined masks before and after sealing, then a write to every read-only type
    for mask in (3, 9, 10, 15, 17, 18, 24, 40, 63):
        for t in (1, 2, 4, 8, 16):
            extra.append([O('setlock', t=mask, b=False), O('setprefix', t=t), O('put', k='m1', v='a%d_%d' % (mask, t)), O('get', k='m1'),
                          O('setlock', t=mask, b=True), O('put', k='m1', v='b%d_%d' % (mask, t)), O('get', k='m1'),
                          O('setlock', t=0, b=True), O('setlock', t=mask, b=False), O('put', k='m1', v='c%d_%d' % (mask, t)), O('get', k='m1')])
    extra += [q for q in kv.session_switch_sequences() if '' not in (q[1]['s'], q[3]['s'])]
    with open(sp, 'a') as f:
        for e in extra:
            seqs.append(e)
            f.write(json.dumps(e) + '\n')
    core.require_tlc_ok(r, 'KvMC generation')
    out.add_tlc('KvMC behaviour generation', r)
    out.sample(dict(kind='TLC behaviour replayed on mem / fs / fsbin / pg', sequence=seqs[len(seqs) // 2]))
    tr = os.path.join(d, 'mbt.ndjson')
    core.run_harness(['kv-run', sp, tr], timeout=3000)
    open(os.path.join(w, 'kt.cfg'), 'w').write(kv.trace_cfg(MINE))
    kinds = set()
    kv.judge(out, PID, w, tr, 'TLC behaviour', MINE, None, kinds, seqs)
    out.stage('C random well-formed histories on every backend')
    tr2 = os.path.join(d, 'rand.ndjson')
    core.run_harness(['kv-random', tr2, '1500' if thorough else '200', '30', 'wellformed'], timeout=3000)
    kv.judge(out, PID, w, tr2, 'random history', MINE, None, kinds, None)
    out.sample(dict(kind='recorded real operation', event=json.loads(open(tr2).readlines()[10])))
    out.cov['distinct_nontrivial'] = len(kinds)
    out.cov['rule'] = ('all operation sequences of the bound (Put/Get/SetPrefix/SetSession/SetLanguage/SetLock) and random histories incl. Dump, each on four backends; '
                       'distinct = (backend, operation, result, type argument, non-empty listing)')
    return out.finish()


def replay(path):
    return kv.replay(PID, path, MINE)


def selftest():
    d = core.scratch('verif-c10s-')
    tr = os.path.join(d, 't.ndjson')
    core.run_harness(['kv-random', tr, '10', '20', 'wellformed'])
    rows = core.read_ndjson(tr)
    for r in rows:
        if r['o']['op'] == 'get' and r['res'] == 'ok':
            r['val'] = 'stale'
            break
    core.write_ndjson(tr, rows)
    w = core.spec_copy({'kt.cfg': kv.trace_cfg(MINE)})
    viol, _ = core.validate_trace('KvTrace', 'kt.cfg', tr, workdir=w)
    if 'C10_Result' not in {v[0] for v in viol}:
        log('selftest C10 FAILED')
        return 2
    log('selftest C10 ok: stale read -> C10_Result')
    return 0
