"""C20 - a graceful end restarts cleanly at the entry node (cache empty, client flags kept); termination stays blocked."""
from . import vise, core
PID = 'C20'
MC = ['C20_GracefulEndUnwinds', 'C20_ClientFlagsKept', 'C20_RestartAtRoot', 'C06_TerminateBlocks']
TR = ['C20_Outcome', 'C20_GracefulEnd', 'C20_Blocked', 'C20_Restart', 'C20_ExitValue']


def run(tier):
    f = vise.Family(PID, tier, MC, TR, ['ends', 'flags', 'nav', 'rempty', 'first'], modes=('P',) if tier != 'thorough' else ('P', 'L'), matcher=vise.known_matcher(PID))
    f.out.assumptions = ['persisted operation = fresh engine + fresh Persister per request over mem / fs / pg-fake',
                         'engine configuration without a first function (runFirst clears TERMINATE by design)']
    t = f.thorough
    f.out.stage('known-finding canonical cases'); f.known_cases()
    f.out.stage('A model check'); f.model_check(7 if t else 5)
    f.out.stage('B+C model histories continuing past the end of the session'); f.replay_model(5 if t else 4)
    f.out.stage('C random programs with end nodes of both kinds'); f.random(300 if t else 40, 30 if t else 20, 14, 'P')
    f.out.stage('C paired runs over mem / fs / pg-fake'); f.pairs_stage(40 if t else 8, 12, 10)
    return f.finish('Model programs with graceful-end and termination nodes at depth 1-3, histories continuing 2-4 requests past the end, persisted mode;')


def replay(path):
    return vise.replay_case(PID, path, TR)


def selftest():
    def corrupt(rows):
        for r in rows:
            if r.get('ev') == 'req' and r['incls'] == 'ok' and r['cont'] and not r['err']:
                r['cont'] = False
                return
        raise core.Infra('selftest: no continuing request in the sample trace')
    return vise.selftest_generic(PID, TR, corrupt, 'C20_Outcome')
