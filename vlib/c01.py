"""C01 - every rendered page fits the configured output size (or the render fails with an error)."""
from . import render, core, vise
PID = 'C01'
MINE = ['C01_Fits', 'C01_NoSilentTruncation']


def run(tier):
    out = render.run(PID, tier, ['C01_Fits'], MINE)
    out.assumptions = ['byte length of the real output compared with the configured size; the model finds the boundary configurations',
                       'engine level: every Flush of recorded sessions over programs with an output size (paged sinks, menus, error prefix, exit value)']
    # engine level: whatever Flush hands out fits
    f = vise.Family(PID, tier, [], ['C01_FlushFits'], ['pages', 'inline'], modes=('L', 'P'), matcher=vise.known_matcher(PID))
    f.out = out
    out.stage('engine level: known-finding canonical case'); f.known_cases()
    out.stage('engine level: model histories of the paged program'); f.replay_model(5 if f.thorough else 4)
    out.stage('engine level: random programs with output sizes'); f.random(300 if f.thorough else 40, 20, 12, 'LP')
    out.cov['distinct_nontrivial'] = out.cov['distinct_nontrivial'] + len(f.pairs)
    out.cov['rule'] += '; engine level: (opcode, target class, moved?, ...) combinations of recorded iterations and (mode, input class, cont, err, output?) of requests'
    return out.finish()


def replay(path):
    return render.replay(PID, path, MINE)


def selftest():
    def corrupt(rows):
        for r in rows:
            for p in r['pages']:
                if p['kind'] == 'ok':
                    p['len'] = r['cfg']['size'] + 1
                    return
    return render.selftest(PID, MINE, corrupt, 'C01_Fits')
