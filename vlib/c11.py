"""C11 - sessions and data types never see each other's stored data (adversarial session ids and keys)."""
import json, os
from . import core, kv
from .core import Outcome, Infra, log
PID = 'C11'
MINE = ['C11_NoCrossRead', 'C11_NoCrossList', 'C11_NoCrossOverwrite']


def run(tier):
    out = Outcome(PID, tier)
    thorough = tier == 'thorough'
    out.assumptions = ['every written value is unique, so the recorder knows under which (data type, session) a returned value was written',
                       'a key or session id the backend refuses on Put is outside the property ("that the backend accepts")']
    w = core.spec_copy()
    d = core.scratch('verif-c11-')
    matcher = kv.known_matcher(PID)
    out.stage('A injectivity of the storage-key encoding')
    consts = dict(Alphabet={'a', '.', '/', '@'} if thorough else {'a', '.', '/'}, MaxLen=2, InjTypes={16, 32})
    open(os.path.join(w, 'inj.cfg'), 'w').write(core.gen_cfg(constants=consts, invariants=['C11_Injective'], action_constraint='Emit'))
    pairs = []
    r = core.tlc(w, 'KvInj', 'inj.cfg', workers=1, timeout=3000, mbt_sink=pairs.append)
    core.require_tlc_ok(r, 'KvInj')
    if r.violated:
        raise Infra('KvInj: collision outside the known family (spec error or new collision class): %s\n%s' % (r.violated, r.out[-2000:]))
    out.add_tlc('KvInj all pairs', r)
    out.cov['exhaustive'] = True
    out.cov['model_collisions'] = len(pairs)
    out.stage('B every colliding pair of the model on the real backends')
    sp = os.path.join(d, 'pairs.ndjson')
    with open(sp, 'w') as f:
        for i, p in enumerate(pairs):
            a, b = p['a'], p['b']
            seq = [dict(op='setprefix', t=a['t'], s='', k='', v='', b=False), dict(op='setsession', t=0, s=''.join(a['s']), k='', v='', b=False),
                   dict(op='put', t=0, s='', k=''.join(a['k']), v='val%d' % i, b=False),
                   dict(op='setprefix', t=b['t'], s='', k='', v='', b=False), dict(op='setsession', t=0, s=''.join(b['s']), k='', v='', b=False),
                   dict(op='get', t=0, s='', k=''.join(b['k']), v='', b=False)]
            f.write(json.dumps(seq) + '\n')
    with open(sp, 'a') as f:
        for q in kv.session_switch_sequences() + kv.punctuation_sequences():
            f.write(json.dumps(q) + '\n')
    # canonical cases of the known findings
    for k in core.known_for(PID):
        with open(sp, 'a') as f:
            f.write(json.dumps(json.load(open(os.path.join(core.VERIF, k['canonical_case'])))['sequence']) + '\n')
    tr = os.path.join(d, 'pairs-trace.ndjson')
    core.run_harness(['kv-run', sp, tr], timeout=3000)
    open(os.path.join(w, 'kt.cfg'), 'w').write(kv.trace_cfg(MINE))
    kinds = set()
    kv.judge(out, PID, w, tr, 'model collision replay', MINE, matcher, kinds, None)
    if pairs:
        out.sample(dict(kind='colliding pair found by TLC, replayed as write-under-a / read-under-b', pair=pairs[0]))
    out.stage('C random adversarial histories')
    tr2 = os.path.join(d, 'adv.ndjson')
    core.run_harness(['kv-random', tr2, '2500' if thorough else '300', '30', 'adversarial'], timeout=3000)
    kv.judge(out, PID, w, tr2, 'random adversarial history', MINE, matcher, kinds, None)
    out.sample(dict(kind='recorded real operation', event=json.loads(open(tr2).readlines()[12])))
    out.stage('D sessions working at the same time on one filesystem directory')
    tr3 = os.path.join(d, 'conc.ndjson')
    core.run_harness(['kv-conc', tr3, '8', '60' if thorough else '30', '12' if thorough else '3'], timeout=3000)
    open(os.path.join(w, 'kc.cfg'), 'w').write(kv.trace_cfg(['C11_ConcOwnData', 'C11_ConcWriteAccepted']))
    viol, st = core.validate_trace('KvTrace', 'kc.cfg', tr3, workdir=w, chunk=4000, par=core.NCPU)
    out.cov['evaluations'] += st['events']
    out.cov['traces_validated_against_impl'] += 1
    for inv, idx, ev in viol:
        out.violation('%s violated by sessions sharing a filesystem directory: %s' % (inv, json.dumps(ev)[:400]),
                      dict(property=PID, kind='kv-conc', invariant=inv, event=ev, note='concurrent schedule: re-run the check to reproduce'))
    for line in open(tr3):
        ev = json.loads(line)
        kinds.add(('conc', ev['op'], ev['res'], ev['type'], ev['want'] == ''))
    out.stage('E sessions with look-alike ids served through engines over one directory')
    tr4 = os.path.join(d, 'sessids.ndjson')
    core.run_harness(['sess-ids', os.path.join(core.SPEC, 'programs'), tr4], timeout=3000)
    open(os.path.join(w, 'ks.cfg'), 'w').write(kv.trace_cfg(['C11_EngineSessionsApart']))
    viol, st = core.validate_trace('KvTrace', 'ks.cfg', tr4, workdir=w)
    out.cov['evaluations'] += st['events']
    out.cov['traces_validated_against_impl'] += st['events']
    for inv, idx, ev in viol:
        out.violation('%s violated: session %r served after its look-alikes over one directory differs from the same session alone: alone=%s shared=%s' % (
            inv, ev['sid'], json.dumps(ev['a'])[:300], json.dumps(ev['b'])[:300]), dict(property=PID, kind='sess-ids', invariant=inv, event=ev))
    for line in open(tr4):
        ev = json.loads(line)
        kinds.add(('sessids', ev['prog'], len(ev['inputs'])))
    out.cov['distinct_nontrivial'] = len(kinds)
    out.cov['rule'] = ('all pairs of (type, session, key) with strings up to length 2 over an adversarial alphabet checked for storage-key collisions by TLC, each collision '
                       'replayed on mem / fs / fsbin / pg; random histories over separators, type-prefix characters, language-like suffixes, empty session, binary bytes, path elements')
    return out.finish()


def replay(path):
    case = json.load(open(path))
    if case.get('kind') == 'kv-conc':
        # a concurrent schedule cannot be replayed step by step: the same driver is run again (several rounds)
        d = core.scratch('verif-c11r-')
        tr = os.path.join(d, 'conc.ndjson')
        core.run_harness(['kv-conc', tr, '8', '40', '6'], timeout=3000)
        w = core.spec_copy({'kc.cfg': kv.trace_cfg(['C11_ConcOwnData', 'C11_ConcWriteAccepted'])})
        viol, _ = core.validate_trace('KvTrace', 'kc.cfg', tr, workdir=w)
        if viol:
            log('VIOLATION property=%s replay=%s' % (PID, path))
            log('  %s' % viol[0][0])
            return 1
        log('replay: property holds on the re-run')
        return 0
    if case.get('kind') == 'sess-ids':
        d = core.scratch('verif-c11r-')
        tr = os.path.join(d, 'sessids.ndjson')
        core.run_harness(['sess-ids', os.path.join(core.SPEC, 'programs'), tr], timeout=3000)
        w = core.spec_copy({'ks.cfg': kv.trace_cfg(['C11_EngineSessionsApart'])})
        viol, _ = core.validate_trace('KvTrace', 'ks.cfg', tr, workdir=w)
        if viol:
            log('VIOLATION property=%s replay=%s' % (PID, path))
            log('  %s' % viol[0][0])
            return 1
        log('replay: property holds on the re-run')
        return 0
    return kv.replay(PID, path, MINE)


def selftest():
    d = core.scratch('verif-c11s-')
    tr = os.path.join(d, 't.ndjson')
    core.run_harness(['kv-random', tr, '10', '20', 'wellformed'])
    rows = core.read_ndjson(tr)
    for r in rows:
        if r['o']['op'] == 'get' and r['res'] == 'ok' and r['known'] and r['pt'] > 8:
            r['ps'] = 'mallory'
            break
    core.write_ndjson(tr, rows)
    w = core.spec_copy({'kt.cfg': kv.trace_cfg(MINE)})
    viol, _ = core.validate_trace('KvTrace', 'kt.cfg', tr, workdir=w)
    if 'C11_NoCrossRead' not in {v[0] for v in viol}:
        log('selftest C11 FAILED')
        return 2
    log('selftest C11 ok: value of another session returned -> C11_NoCrossRead')
    return 0
