"""setup_cmd: verify the tools exist, warm the Go build cache, run the selftests that exist."""
import importlib, os, shutil, subprocess
from . import core


def run():
    for tool in ('java', 'go', 'python3'):
        if not shutil.which(tool):
            print('missing tool', tool)
            return 2
    if not os.path.exists('/opt/veriftools/tla/tla2tools.jar'):
        print('missing tla2tools.jar')
        return 2
    try:
        core.build_harness()
    except core.Infra as e:
        print('INFRASTRUCTURE ERROR: ' + str(e))
        return 2
    print('setup ok: harness builds against', core.REPO)
    return 0
