"""C08 - no history of client inputs crashes the engine or corrupts a session (well-formed applications)."""
from . import vise, core
PID = 'C08'
MC = ['C08_NoPanic', 'C08_Consistent', 'C08_Levels']
TR = ['C08_NoPanic', 'C08_Levels', 'C08_Account', 'C08_ReqNoPanic', 'C08_ReqLevels', 'C08_ReqAccount', 'C08_Resumable', 'C08_RefusedContinuable', 'C08_ReqContinuable', 'C08_LoopNoPanic']


def run(tier):
    f = vise.Family(PID, tier, MC, TR, ['nav', 'flags', 'scope', 'ends', 'lang', 'reenter', 'capacity', 'first', 'rempty'] if tier == 'thorough' else ['nav', 'ends', 'reenter', 'capacity', 'first', 'rempty'], modes=('L', 'P'), matcher=vise.known_matcher(PID))
    f.out.assumptions = ['well-formedness of generated programs is by construction of the generator (targets exist, catch node, flags in range, no self-move, '
                         'moves before a HALT only go forward); external results may exceed their declared size or fail',
                         'every request runs under recover() and a 20 s watchdog (a request that does not return counts as a crash)',
                         'some generated programs run with state.MaxLevel lowered to 3..5 so that histories reach the depth bound',
                         'example applications: examples/*/*.vis assembled by asm.Parse, templates from the example directories, generic stub functions for LOAD symbols (db and preprocessor have no .vis sources)']
    t = f.thorough
    f.out.stage('known-finding canonical cases'); f.known_cases()
    f.out.stage('A model check'); f.model_check(6 if t else 4)
    f.out.stage('A2 inductive step of the session invariants (ViseInd)')
    # (sizes measured on this image, 16 workers, machine busy: reenter/2/3 flags 1.8 M states 57 s; reenter/1/6 flags 1.76 M states 56 s;
    #  capacity/1/3 flags 0.25 M states 35 s; program nav does not finish in 20 minutes even at depth 1 and is left to ViseMC)
    vise_ind(f, [('reenter', 2, {0, 6, 8}), ('reenter', 1, {0, 1, 2, 3, 6, 8}), ('capacity', 1, {0, 6, 8})] if t else [('reenter', 1, {0, 6, 8})])
    f.out.stage('B+C model histories on the real engine (exhaustive over each program alphabet + refused inputs)'); f.replay_model(5 if t else 3)
    f.random_env = {'VERIF_ECHO': '1'}      # functions that store the client's input as it is; accepted inputs that are not valid UTF-8
    f.out.stage('C random programs, junk inputs, both modes'); f.random(400 if t else 50, 30 if t else 20, 16, 'LP')
    f.out.stage('C example applications of the repository'); f.examples(40 if t else 8, 14)
    f.out.stage('C paired runs over mem / fs / pg-fake'); f.pairs_stage(60 if t else 10, 12, 10)
    return f.finish('Model programs exhaustively over (selectors + unknown + empty + refused + over-long)^depth, random well-formed programs with junk '
                    'byte strings of length 0..300, in long-lived and persisted mode over three stores;')


def vise_ind(f, jobs):
    """Levels / Consistent / path well-formedness / no panic / TERMINATE gate / mapped-visible are INDUCTIVE over Iter: one iteration
    from every session state of a bounded universe that satisfies them (ViseInd.tla) - the bounded-depth exploration of ViseMC extended
    to histories of any length, at the level of the specification."""
    import json, os
    for prog, depth, flags in jobs:
        nflags = 8 + json.load(open(vise.prog_path(prog)))['flagcount']
        cfg = 'ind_%s.cfg' % prog
        c = dict(vise.BASE_CONST, MaxDepth=depth, NFlags=nflags, FlagUniverse=flags)
        c.pop('MaxReq', None); c.pop('Mode', None); c.pop('Cap', None)
        txt = core.gen_cfg(constants=c, invariants=['C08_LevelsInductive', 'C08_ConsistentInductive', 'C08_PathInductive', 'C08_NoPanicStep',
                                                    'C06_BlockedStep', 'C05_MappedVisibleStep'])
        txt = txt.replace('CONSTANTS\n', 'CONSTANTS\n  ' + '\n  '.join(vise.SUBST) + '\n')
        open(os.path.join(f.w, cfg), 'w').write(txt)
        r = core.tlc(f.w, 'ViseInd', cfg, workers=core.NCPU, timeout=3000, env={'VERIF_PROG': vise.prog_path(prog)})
        core.require_tlc_ok(r, 'ViseInd %s' % prog)
        if r.violated:
            raise core.Infra('ViseInd %s: %s is not inductive in the specification\n%s' % (prog, r.violated, r.out[-3000:]))
        f.out.add_tlc('ViseInd %s: one iteration from every invariant-satisfying session (depth <= %d, flags %s)' % (prog, depth, sorted(flags)), r)


def replay(path):
    return vise.replay_case(PID, path, TR)


def selftest():
    def corrupt(rows):
        for r in rows:
            if r.get('ev') == 'instr' and r['pre']['code'] and r['pre']['code'][0]['op'] == 'MOVE' and len(r['post']['path']) > len(r['pre']['path']):
                r['post']['c']['frames'] = r['post']['c']['frames'][:-1]      # Down without Push
                return
        raise core.Infra('selftest: no descent in the sample trace')
    return vise.selftest_generic(PID, TR, corrupt, 'C08_Levels')
