"""Shared pipeline of C10 / C11 over KvStore.tla."""
import json, os
from . import core
from .core import Outcome, Infra, log

TYPECHAR = {1: '1', 2: '2', 4: '4', 8: '8', 16: '@', 32: 'P'}


def trace_cfg(invs):
    return core.gen_cfg(spec='TraceSpec', invariants=invs)


def dec(s):
    return bytes.fromhex(s[4:]).decode('latin-1') if s.startswith('hex:') else s


def context_history(events):
    """per (backend, seq): list of events in order"""
    by = {}
    for ev in events:
        by.setdefault((ev['backend'], ev['seq']), []).append(ev)
    return by


def known_matcher(pid):
    ks = {k['matcher']: k for k in core.known_for(pid)}

    def m(inv, ev, hist):
        """hist: events of the same backend/sequence up to and including ev"""
        t, s = 0, ''
        puts = []
        for e in hist:
            o = e['o']
            if o['op'] == 'setprefix':
                t = o['t']
            elif o['op'] == 'setsession':
                s = dec(o['s'])
            elif o['op'] == 'put' and e['res'] == 'ok':
                puts.append((t, s if t > 8 else '', dec(o['k'])))
        k = dec(ev['o']['k'])
        mine = (t, s if t > 8 else '', k)

        def name(x):
            return (x[1] + '.' if x[0] > 8 and x[1] else '') + x[2]
        others = [p for p in puts if p != mine]
        if 'kv-dot-ambiguity' in ks and any(p[0] == t and t > 8 and name(p) == name(mine) for p in others):
            return ks['kv-dot-ambiguity']
        # with no session selected, the sessioned types address the union of all sessions (same root cause: "<session>." is just a key prefix)
        if 'kv-dot-ambiguity' in ks and inv == 'C11_NoCrossList' and t > 8 and s == '':
            return ks['kv-dot-ambiguity']
        # a listing under session s shows an entry that another (session, key) split wrote under the same stored name
        # "<s>.<k>": the writer had no session (its key began with "<s>.") or a session that is a dot-prefix of that name
        if 'kv-dot-ambiguity' in ks and inv == 'C11_NoCrossList' and t > 8 and s != '':
            foreign = [x for x in ev['list'] if x.get('pk') and (x['pt'] != t or dec(x['ps']) != s)]
            if foreign and all(x['pt'] == t and (dec(x['ps']) == '' or (s + '.' + dec(x['k'])).startswith(dec(x['ps']) + '.')) for x in foreign):
                return ks['kv-dot-ambiguity']
        if ev['backend'] in ('fs', 'fsbin'):
            if 'fs-path-cleaning' in ks and ('/' in name(mine) or any('/' in name(p) for p in others)):
                return ks['fs-path-cleaning']
            if 'fs-legacy-name' in ks and ev['backend'] == 'fs' and any(name(mine) == TYPECHAR[p[0]] + name(p) or TYPECHAR[t] + name(mine) == name(p) for p in others):
                return ks['fs-legacy-name']
        return None
    return m


def judge(out, pid, w, tr, source, mine, matcher, kinds, seqs):
    viol, st = core.validate_trace('KvTrace', 'kt.cfg', tr, workdir=w, chunk=10000, par=core.NCPU, split_on='"first":true')
    out.cov['evaluations'] += st['events']
    events = [json.loads(l) for l in open(tr)]
    by = context_history(events)
    for ev in events:
        kinds.add((ev['backend'], ev['o']['op'], ev['res'], ev['o']['t'] if ev['o']['op'] in ('setprefix', 'setlock') else 0, bool(ev['list'])))
    out.cov['traces_validated_against_impl'] += len(by)
    pos = {}
    for key, evs in by.items():
        for i, e in enumerate(evs):
            pos[id(e)] = (key, i)
    for inv, idx, ev0 in viol:
        ev = events[idx]
        key, i = pos[id(ev)]
        k = matcher(inv, ev, by[key][:i + 1]) if matcher else None
        if k:
            out.known(k['id'], k['what'])
            continue
        out.violation('%s violated by backend %s (%s): op=%s res=%s val=%s prov=(%s,%s) list=%s' % (inv, ev['backend'], source, json.dumps(ev['o']), ev['res'], ev['val'], ev['pt'], ev['ps'], ev['list'][:6]),
                      dict(property=pid, kind='kv-sequence', invariant=inv, backend=ev['backend'], sequence=[dict(e['o'], s=dec(e['o']['s']), k=dec(e['o']['k']), v=dec(e['o']['v'])) for e in by[key][:i + 1]]))


def session_switch_sequences(ids=('', 'a', 'ab', 'abc', 'b', '254700', '2547001234', 'bob', 'bobby')):
    """one handle reused for two sessions, every ordered pair of ids (incl. ids that are prefixes / extensions of each other)"""
    def O(op, t=0, s='', k='', v='', b=False):
        return dict(op=op, t=t, s=s, k=k, v=v, b=b)
    out, n = [], 0
    for t in (16, 32):
        for s1 in ids:
            for s2 in ids:
                if s1 == s2:
                    continue
                n += 1
                out.append([O('setprefix', t=t), O('setsession', s=s1), O('put', k='k', v='w%da' % n), O('setsession', s=s2), O('get', k='k'), O('put', k='k', v='w%db' % n),
                            O('get', k='k'), O('setsession', s=s1), O('get', k='k'), O('dump'), O('setsession', s=s2), O('dump')])
    return out


PUNCT_IDS = ('a:b', 'a_b', 'a*b', 'a?b', 'a|b', 'a<b', 'a>b', 'a"b', 'a\\b', 'a b', 'a-b', 'a+b', 'a%b', 'a#b')


def punctuation_sequences():
    """session ids, and keys, that differ in ONE punctuation character are different ids / keys: every ordered pair, one handle"""
    def O(op, t=0, s='', k='', v='', b=False):
        return dict(op=op, t=t, s=s, k=k, v=v, b=b)
    out, n = session_switch_sequences(PUNCT_IDS), 0
    for t in (16, 32):
        for k1 in PUNCT_IDS:
            for k2 in PUNCT_IDS:
                if k1 != k2:
                    n += 1
                    out.append([O('setprefix', t=t), O('setsession', s='s1'), O('put', k=k1, v='p%da' % n), O('get', k=k2), O('put', k=k2, v='p%db' % n),
                                O('get', k=k1), O('get', k=k2), O('dump')])
    return out


def replay(pid, path, mine):
    case = json.load(open(path))
    d = core.scratch('verif-kvr-')
    sp = os.path.join(d, 's.ndjson')
    open(sp, 'w').write(json.dumps(case['sequence']) + '\n')
    tr = os.path.join(d, 't.ndjson')
    core.run_harness(['kv-run', sp, tr] + ([case['backend']] if case.get('backend') else []))
    w = core.spec_copy({'kt.cfg': trace_cfg(mine)})
    viol, _ = core.validate_trace('KvTrace', 'kt.cfg', tr, workdir=w)
    if viol:
        log('VIOLATION property=%s replay=%s' % (pid, path))
        log('  %s backend=%s' % (viol[0][0], viol[0][2]['backend']))
        return 1
    log('replay: property holds on this case')
    return 0
