"""C04 - navigation stack and page index follow the documented move table (MOVE, INCMP, CATCH; all target kinds)."""
from . import vise, core
PID = 'C04'
MC = ['C04_PositionWellFormed']
TR = ['C04_Nav', 'C04_Code', 'C04_ReqNav']


def run(tier):
    f = vise.Family(PID, tier, MC, TR, ['nav', 'reenter', 'ends', 'pages', 'first'], modes=('L', 'P'))
    f.out.assumptions = ['instruction-level hook in vm.Run (build tag verif) records complete pre/post state per loop iteration',
                         'the decision whether a conditional move is taken is charged to C03/C06: C04 accepts the table applied or not applied']
    t = f.thorough
    f.out.stage('A model check'); f.model_check(7 if t else 5)
    f.out.stage('B+C model histories on the real engine'); f.replay_model(5 if t else 4)
    f.out.stage('C random programs'); f.random(300 if t else 40, 30 if t else 20, 12, 'LP')
    f.out.stage('C example applications'); f.examples(20 if t else 4, 12)
    return f.finish('Every executed instruction of every recorded run (model histories to the request bound + random programs) is compared '
                    'with ApplyTarget of Vise.tla;')


def replay(path):
    return vise.replay_case(PID, path, TR)


def selftest():
    def corrupt(rows):
        for r in rows:
            if r.get('ev') == 'instr' and r['pre']['code'] and r['pre']['code'][0]['op'] == 'MOVE' and r['post']['path'] != r['pre']['path']:
                r['post']['idx'] += 1             # index not reset on descent
                return
        raise core.Infra('selftest: no MOVE in the sample trace')
    return vise.selftest_generic(PID, TR, corrupt, 'C04_Nav')
