"""C16 - the assembler emits exactly the instructions that were written (incl. batch menu expansion)."""
import json, os, re
from . import core, codec
from .core import Outcome, Infra, log
PID = 'C16'
INVS = ['C16_NoPanic', 'C16_Accepts', 'C16_Fidelity']
CANON = re.compile(r'^(0|[1-9][0-9]*)$')


def selectors(src):
    for l in src:
        if l['op'] in ('INCMP', 'MOUT', 'MNEXT', 'MPREV', 'DOWN'):
            yield l['b']
        elif l['op'] in ('UP', 'NEXT', 'PREVIOUS'):
            yield l['a']


def matcher(inv, ev):
    ks = {k['matcher']: k for k in core.known_for(PID)}
    bad = [s for s in selectors(ev['src']) if s[:1].isdigit() and not CANON.match(s)]
    if bad and 'asm-numeric-selector' in ks:
        return ks['asm-numeric-selector']
    return None


def judge(out, w, tr, source, kinds):
    viol, st = core.validate_trace('AsmTrace', 'at.cfg', tr, workdir=w, chunk=5000, par=core.NCPU)
    out.cov['evaluations'] += st['events']
    out.cov['traces_validated_against_impl'] += st['events']
    for line in open(tr):
        ev = json.loads(line)
        for l in ev['src']:
            kinds.add((l['op'], l['a'] if l['op'] == 'MOVE' else '', (l['b'] or l['a'])[:4] if l['op'] not in ('LOAD', 'CATCH', 'CROAK', 'MOVE', 'MAP', 'RELOAD') else '', l['n'], l['m']))
    for inv, idx, ev in viol:
        k = matcher(inv, ev)
        if k:
            out.known(k['id'], k['what'])
            continue
        out.violation('%s violated by the real assembler (%s): source=%r ok=%s panic=%s decoded=%s' % (
            inv, source, ev['text'][:300], ev['ok'], ev['panic'], [(d['op'], d['a'], d['b'], d['n'], d['m']) for d in ev['dec']][:12]),
            dict(property=PID, kind='asm-source', invariant=inv, src=ev['src']))


def run(tier):
    out = Outcome(PID, tier)
    thorough = tier == 'thorough'
    out.assumptions = ['source text is printed from abstract lines by the harness (so the independent reading of the source is by construction)',
                       'batch menu lines only at the end of a program, as instructions.texi requires',
                       'sizes up to 2^31-1 here (TLC integers); full 32-bit width coverage is C14']
    w = core.spec_copy()
    d = core.scratch('verif-c16-')
    sels = {'0', '1', '10', '00', '007', '1a', 'a1', 'ab', '*'}
    consts = dict(MaxLines=3 if thorough else 2, Selectors=sels if not thorough else {'0', '10', '007', '1a', 'a1', '*'}, Sizes={0, 1, 255, 256, 65535, 65536, 16777216, 2147483647})
    out.stage('A model check of the translation')
    codec.model_check(out, w, 'AsmMC', 'amc.cfg', consts, ['C16_Count', 'C16_SelectorsKept'], 'AsmMC')
    out.cov['exhaustive'] = True
    out.stage('B every model program through the real assembler')
    cp = os.path.join(d, 'cases.ndjson')
    codec.emit_cases(out, w, 'AsmMC', 'agen.cfg', consts, cp, 'AsmMC program emission')
    # all 2^4 subsets x orders of the four batch lines
    import itertools
    with open(cp, 'a') as f:
        b = dict(DOWN=dict(op='DOWN', a='foo', b='0', n=0, m=0, c='to_foo'), UP=dict(op='UP', a='1', b='back', n=0, m=0, c=''),
                 NEXT=dict(op='NEXT', a='2', b='fwd', n=0, m=0, c=''), PREVIOUS=dict(op='PREVIOUS', a='3', b='prev', n=0, m=0, c=''))
        for r in range(1, 5):
            for combo in itertools.permutations(b, r):
                for head in ([], [dict(op='LOAD', a='foo', b='', n=5, m=0, c='')]):
                    f.write(json.dumps(dict(src=head + [b[x] for x in combo])) + '\n')
    tr = os.path.join(d, 'asm.ndjson')
    core.run_harness(['asm-cases', cp, tr], timeout=3000)
    open(os.path.join(w, 'at.cfg'), 'w').write(codec.trace_cfg(INVS))
    kinds = set()
    judge(out, w, tr, 'TLC-enumerated program', kinds)
    out.stage('C random programs from the documented grammar')
    tr2 = os.path.join(d, 'rand.ndjson')
    core.run_harness(['asm-random', tr2, '4000' if thorough else '500'])
    judge(out, w, tr2, 'random program', kinds)
    for i, line in enumerate(open(tr2)):
        if i == 2:
            ev = json.loads(line)
            out.sample(dict(kind='random source assembled by asm.Parse', text=ev['text'], decoded=ev['dec'][:10]))
    out.cov['distinct_nontrivial'] = len(kinds)
    out.cov['rule'] = ('all programs of <= MaxLines lines over every opcode, the selector alphabet (digits, letters, mixed, leading zeros, wildcard), width-boundary sizes, '
                       'all subsets and orders of the four batch lines, plus random programs up to 30 lines with comments and blank lines; distinct = (opcode, target, selector prefix, size, mode) of source lines')
    return out.finish()


def replay(path):
    case = json.load(open(path))
    d = core.scratch('verif-c16r-')
    cp = os.path.join(d, 'c.ndjson')
    open(cp, 'w').write(json.dumps(dict(src=case['src'])) + '\n')
    tr = os.path.join(d, 't.ndjson')
    core.run_harness(['asm-cases', cp, tr])
    w = core.spec_copy({'at.cfg': codec.trace_cfg(INVS)})
    viol, _ = core.validate_trace('AsmTrace', 'at.cfg', tr, workdir=w)
    if viol:
        log('VIOLATION property=%s replay=%s' % (PID, path))
        log('  ' + viol[0][0])
        return 1
    log('replay: property holds on this case')
    return 0


def selftest():
    d = core.scratch('verif-c16s-')
    tr = os.path.join(d, 't.ndjson')
    core.run_harness(['asm-random', tr, '20'])
    rows = core.read_ndjson(tr)
    for r in rows:
        if r['ok'] and len(r['dec']) > 1 and not [s for s in selectors(r['src']) if s[:1].isdigit() and not CANON.match(s)]:
            r['dec'][0], r['dec'][1] = r['dec'][1], r['dec'][0]
            if r['dec'][0] != r['dec'][1]:
                break
    core.write_ndjson(tr, rows)
    w = core.spec_copy({'at.cfg': codec.trace_cfg(INVS)})
    viol, _ = core.validate_trace('AsmTrace', 'at.cfg', tr, workdir=w)
    if 'C16_Fidelity' not in {v[0] for v in viol if not matcher(v[0], v[2])}:
        log('selftest C16 FAILED')
        return 2
    log('selftest C16 ok: swapped instructions -> C16_Fidelity')
    return 0
