"""C15 - malformed bytecode is rejected with an error, never a crash or a silent accept (disassembler and VM decoding)."""
import json, os
from . import core, codec
from .core import Outcome, Infra, log
PID = 'C15'
INVS = ['C15_NoPanic', 'C15_NoSilentAccept', 'C15_AcceptsValid', 'C15_RunRejects', 'C15_RunDecodes']
ALPHA = {0, 1, 2, 3, 4, 5, 7, 8, 12, 13, 255}


def judge(out, w, tr, source, kinds):
    viol, st = core.validate_trace('BytecodeTrace', 'bt.cfg', tr, workdir=w, chunk=20000, par=core.NCPU)
    out.cov['evaluations'] += st['events']
    out.cov['traces_validated_against_impl'] += st['events']
    for line in open(tr):
        ev = json.loads(line)
        kinds.add((ev['parseall'], ev['tostring'], ev['run'], ev['src'], tuple(ev['bytes'][:2]), min(len(ev['bytes']), 12)))
    for inv, idx, ev in viol:
        out.violation('%s violated by the real decoders (%s): bytes=%s ParseAll=%s ToString=%s Run=%s' % (inv, source, ev['bytes'][:60], ev['parseall'], ev['tostring'], ev['run']),
                      dict(property=PID, kind='byte-string', invariant=inv, bytes=ev['bytes']))


def run(tier):
    out = Outcome(PID, tier)
    thorough = tier == 'thorough'
    out.assumptions = ['no coverage-guided fuzzing (outside this technique family): exhaustive small strings over a branch-covering alphabet plus spec-judged truncations '
                       'and single-byte corruptions of generated valid programs take its place',
                       'Vm.Run is not executed on strings containing a decodable CATCH/CROAK with a flag index beyond the test state (execution, not decoding)',
                       'opcode 0 (NOOP) is in the opcode table: the disassembler lists nothing for it, the VM refuses it (named deviation)']
    w = core.spec_copy()
    d = core.scratch('verif-c15-')
    consts = dict(Alphabet=ALPHA, MaxLen=5 if thorough else 4)
    out.stage('A model check: verdict consistency over all small strings')
    codec.model_check(out, w, 'BytecodeStrMC', 'smc.cfg', consts, ['C15_VerdictConsistent'], 'BytecodeStrMC')
    out.cov['exhaustive'] = True
    out.stage('B all small strings through the real decoders')
    cp = os.path.join(d, 'strings.ndjson')
    codec.emit_cases(out, w, 'BytecodeStrMC', 'sgen.cfg', consts, cp, 'BytecodeStrMC string emission')
    tr = os.path.join(d, 'dec.ndjson')
    core.run_harness(['codec-strings', cp, tr], timeout=3000)
    open(os.path.join(w, 'bt.cfg'), 'w').write(codec.trace_cfg(INVS))
    kinds = set()
    judge(out, w, tr, 'TLC-enumerated byte string', kinds)
    out.stage('C truncations and corruptions of generated valid programs')
    tr2 = os.path.join(d, 'mut.ndjson')
    core.run_harness(['codec-mutate', tr2, '1500' if thorough else '150'], timeout=3000)
    judge(out, w, tr2, 'mutated valid program', kinds)
    for i, line in enumerate(open(tr2)):
        if i in (3, 40):
            out.sample(dict(kind='mutated program given to ParseAll / ToString / Vm.Run', event=json.loads(line)))
    out.cov['distinct_nontrivial'] = len(kinds)
    out.cov['rule'] = ('all byte strings up to the length bound over {0,1,2,3,4,5,7,8,12,13,255}, every truncation and 6 corruptions per byte of generated valid programs; '
                       'distinct = (ParseAll verdict, ToString verdict, Run verdict, source, first two bytes, length class)')
    return out.finish()


def replay(path):
    case = json.load(open(path))
    d = core.scratch('verif-c15r-')
    cp = os.path.join(d, 'c.ndjson')
    open(cp, 'w').write(json.dumps(case['bytes']) + '\n')
    tr = os.path.join(d, 't.ndjson')
    core.run_harness(['codec-strings', cp, tr])
    w = core.spec_copy({'bt.cfg': codec.trace_cfg(INVS)})
    viol, _ = core.validate_trace('BytecodeTrace', 'bt.cfg', tr, workdir=w)
    if viol:
        log('VIOLATION property=%s replay=%s' % (PID, path))
        log('  ' + viol[0][0])
        return 1
    log('replay: property holds on this case')
    return 0


def selftest():
    d = core.scratch('verif-c15s-')
    tr = os.path.join(d, 't.ndjson')
    core.run_harness(['codec-mutate', tr, '3'])
    rows = core.read_ndjson(tr)
    for r in rows:
        if r['src'] == 'trunc' and r['parseall'] == 'err':
            r['parseall'] = 'ok'
            break
    core.write_ndjson(tr, rows)
    w = core.spec_copy({'bt.cfg': codec.trace_cfg(INVS)})
    viol, _ = core.validate_trace('BytecodeTrace', 'bt.cfg', tr, workdir=w)
    if 'C15_NoSilentAccept' not in {v[0] for v in viol}:
        log('selftest C15 FAILED')
        return 2
    log('selftest C15 ok: truncated program reported as success -> C15_NoSilentAccept')
    return 0
