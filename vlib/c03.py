"""C03 - client input is routed by the first matching INCMP, once; no match -> catch node with the input shown."""
from . import vise, core
PID = 'C03'
MC = ['C03_AtMostOneInputMove', 'C03_FirstMatchWins', 'C03_NoMatchGoesToCatch']
TR = ['C03_Step', 'C03_NoMatch', 'C03_InmatchCleared', 'C03_MessageShown', 'C03_RoutedInput', 'C04_ReqNav']


def run(tier):
    f = vise.Family(PID, tier, MC, TR, ['nav', 'flags', 'pages'], modes=('L', 'P'))
    f.out.assumptions = ['instruction-level hook in vm.Run (build tag verif) records complete pre/post state per loop iteration',
                         'model programs + seeded random well-formed programs; selector alphabet of each program + junk inputs']
    t = f.thorough
    f.out.stage('A model check'); f.model_check(7 if t else 5)
    f.out.stage('B+C model histories on the real engine'); f.replay_model(5 if t else 4)
    f.out.stage('C random programs'); f.random(300 if t else 40, 30 if t else 20, 12, 'LP')
    return f.finish('All histories of the model programs up to the request bound (every input at every HALT, every external result) '
                    'replayed on the real engine, plus seeded random programs;')


def replay(path):
    return vise.replay_case(PID, path, TR)


def selftest():
    def corrupt(rows):
        for r in rows:
            if r.get('ev') == 'instr' and r['pre']['code'] and r['pre']['code'][0]['op'] == 'INCMP' and 1 in r['post']['flags']:
                r['post']['flags'].remove(1)      # INMATCH dropped from a matching INCMP's post-state
                return
        raise core.Infra('selftest: no matching INCMP in the sample trace')
    return vise.selftest_generic(PID, TR, corrupt, 'C03_Step')
