"""C12 - saving session state to the filesystem store is crash-atomic.

The file operations of a real save are recorded with strace; FsSave.tla executes that recorded sequence and TLC enumerates a crash
before every operation (and torn writes, model only); the real process is then killed (strace fault injection, SIGKILL on entry to
the chosen syscall) at every recorded operation that touches the store, a fresh process loads the session and serves one more
request.  The verdict comes from the real outcomes; the model's prediction per crash point must agree with them."""
import json, os, re, shutil, subprocess
from . import core
from .core import Outcome, Infra, log

PID = 'C12'
TRACE = 'openat,write,pwrite64,writev,close,rename,renameat,renameat2,unlink,unlinkat,fsync,fdatasync,ftruncate,link,linkat'
LINE = re.compile(r'^(\d+)\s+(\w+)\((.*)$')


def vh(args, env=None):
    return core.run_harness(args, env=env)


def result_of(p):
    for l in p.stdout.splitlines():
        if l.startswith('RESULT '):
            return json.loads(l[7:])
    raise Infra('no RESULT line from harness: %s %s' % (p.stdout[-300:], p.stderr[-300:]))


def strace(exe, args, logp, inject=None, fsize=None):
    cmd = ['strace', '-f', '-o', logp, '-e', 'trace=' + TRACE]
    if inject:
        cmd += ['-e', 'inject=%s:signal=KILL:when=%d' % inject]
    cmd += [exe] + args
    env = dict(os.environ, GOMAXPROCS='1', VERIF_SEED='1')
    if fsize:
        env['VERIF_FSIZE'] = str(fsize)
    return subprocess.run(cmd, stdout=subprocess.PIPE, stderr=subprocess.PIPE, text=True, env=env, timeout=120)


def parse(logp, store):
    """-> list of entries (name, ordinal of that syscall name, abstract op or None if it does not touch the store)"""
    fds, counts, out = {}, {}, []
    for line in open(logp):
        m = LINE.match(line)
        if not m:
            continue
        pid, name, rest = m.groups()
        counts[name] = counts.get(name, 0) + 1
        ret = re.search(r'=\s+(-?\d+)', rest.rsplit(')', 1)[-1]) if ')' in rest else None
        rv = int(ret.group(1)) if ret else None
        op = None
        if name == 'openat':
            pm = re.search(r'"([^"]*)"', rest)
            path = pm.group(1) if pm else ''
            if path.startswith(store + '/') or path == store:
                f = os.path.basename(path)
                if 'O_TRUNC' in rest:
                    op = dict(op='opentrunc', f=f, g='', n=0)
                elif 'O_CREAT' in rest:
                    op = dict(op='create', f=f, g='', n=0)
                else:
                    op = dict(op='other', f=f, g='', n=0)
                if rv is not None and rv >= 0:
                    fds[rv] = f
        elif name in ('write', 'pwrite64', 'writev'):
            fd = int(rest.split(',')[0])
            if fd in fds:
                op = dict(op='write', f=fds[fd], g='', n=rv if rv and rv > 0 else int(re.findall(r'(\d+)\)?\s*(?:=|<unfinished)', rest)[-1]) if re.findall(r'(\d+)\)?\s*(?:=|<unfinished)', rest) else 1)
        elif name == 'close':
            fd = int(re.match(r'(\d+)', rest).group(1))
            if fd in fds:
                op = dict(op='other', f=fds.pop(fd), g='', n=0)
        elif name in ('rename', 'renameat', 'renameat2', 'link', 'linkat'):
            ps = re.findall(r'"([^"]*)"', rest)
            if len(ps) >= 2 and (ps[0].startswith(store + '/') or ps[1].startswith(store + '/')):
                op = dict(op='rename', f=os.path.basename(ps[0]), g=os.path.basename(ps[1]), n=0)
        elif name in ('unlink', 'unlinkat'):
            ps = re.findall(r'"([^"]*)"', rest)
            if ps and ps[0].startswith(store + '/'):
                op = dict(op='unlink', f=os.path.basename(ps[0]), g='', n=0)
        elif name in ('fsync', 'fdatasync', 'ftruncate'):
            fd = int(re.match(r'(\d+)', rest).group(1))
            if fd in fds:
                op = dict(op='other', f=fds[fd], g='', n=0)
        out.append((name, counts[name], op, line.strip()))
    return out


def proj(r):
    return (r['ok'], tuple(r['path']), r['idx'], tuple(r['flags']), r['ncode'], r['used'], r['frames'], r.get('digest', ''))


def run(tier):
    out = Outcome(PID, tier, level='fault_enumeration')
    thorough = tier == 'thorough'
    out.assumptions = ['process death = SIGKILL delivered by strace on entry to the chosen system call; death after a PARTIAL write is produced for real with RLIMIT_FSIZE (the kernel accepts q bytes, the process is killed on entry to the continuing write); torn writes at arbitrary offsets are additionally explored in the model',
                       'the saver is single-threaded for file I/O (GOMAXPROCS=1, locked OS thread); every injected run is checked against its own strace log',
                       'old/new states are consecutive states of a real persisted session of a descending program with growing cache contents']
    if not shutil.which('strace'):
        raise Infra('strace not available')
    exe = core.build_harness()
    d = core.scratch('verif-c12-')
    w = core.spec_copy()
    nstates = 7 if thorough else 4
    # the session is first taken 17 levels deep (18 cache scopes, 35 symbols), then: 2 / 5 stay on the node (same-length record
    # with different content), 1 descends, 0 ascends
    warm = [''] + ['1'] * 17
    inputs = ['2', '5', '1', '2', '0', '5', '1', '1', '2'][:nstates + 2]
    # (two subscriber-style ids that differ in one punctuation character: different sessions, different records)
    sess, neigh = '254700000001:7', '254700000001_7'
    base = os.path.join(d, 'base')
    os.makedirs(base)
    result_of(vh(['fs-req', base, neigh, '']))
    result_of(vh(['fs-req', base, neigh, '1']))
    neigh0 = result_of(vh(['fs-load', base, neigh]))
    # (while the session is taken down, the application stores data of its own through the same store handle in every request)
    for x in warm:
        result_of(vh(['fs-req', base, sess, x], env={'VERIF_APPDATA': '1'}))
    neigh1 = result_of(vh(['fs-load', base, neigh]))
    if proj(neigh0) != proj(neigh1) or not os.path.exists(os.path.join(base, '@' + neigh)) or not os.path.exists(os.path.join(base, '@' + sess)):
        out.violation('C12_OthersUntouched: serving session %r changed the stored record of session %r (before: %s, after: %s; files: %s)' % (
            sess, neigh, json.dumps(proj(neigh0))[:200], json.dumps(proj(neigh1))[:200], sorted(os.listdir(base))),
            dict(property=PID, kind='fs-neighbour', session=sess, neighbour=neigh, inputs=warm, before=neigh0, after=neigh1))
        return out.finish()
    deep = result_of(vh(['fs-load', base, sess]))
    if not deep['ok'] or len(deep['path']) < 17:
        out.violation('C12_Atomic: a session %d levels deep, saved completely, is not found complete by a fresh process (%s): the engine would start a new session' % (
            len(warm) - 1, deep['err'][:120]), dict(property=PID, kind='fs-deep', inputs=warm, recovered=deep))
        return out.finish()
    classes, npoints, nmodel = set(), 0, 0
    for k in range(nstates):
        result_of(vh(['fs-req', base, sess, inputs[k]]))          # state k (old)
        old = result_of(vh(['fs-load', base, sess]))
        neigh_bytes = open(os.path.join(base, '@' + neigh), 'rb').read()
        # phase 1: the complete save, recorded
        a = os.path.join(d, 'a%d' % k)
        shutil.copytree(base, a)
        logp = os.path.join(d, 'phase1-%d.log' % k)
        p = strace(exe, ['fs-req', a, sess, inputs[k + 1]], logp)
        if p.returncode != 0:
            raise Infra('phase 1 run failed: %s' % p.stderr[-400:])
        new = result_of(vh(['fs-load', a, sess]))
        old_bytes = open(os.path.join(base, '@' + sess), 'rb').read()
        new_bytes = open(os.path.join(a, '@' + sess), 'rb').read()
        if proj(new) == proj(old):
            raise Infra('old and new state do not differ')
        entries = parse(logp, a)
        marked = [(n, o, op) for n, o, op, _ in entries if op is not None and op['op'] != 'other' or (op is not None and n == 'close')]
        ops = [op for n, o, op, _ in entries if op is not None]
        # only the operations after the session was read (the save)
        first_mut = next(i for i, op in enumerate(ops) if op['op'] in ('opentrunc', 'create', 'write', 'rename', 'unlink'))
        save_ops = ops[first_mut:]
        total = sum(op['n'] for op in save_ops if op['op'] == 'write')
        sname = '@' + sess
        tmpnames = {}
        def norm(f):
            if f == sname:
                return 'S'
            if f == '@' + neigh:
                return 'N'
            if f == '':
                return ''
            return tmpnames.setdefault(f, 'T%d' % (len(tmpnames) + 1))
        mops = [dict(op=o['op'], f=norm(o['f']), g=norm(o['g']), n=o['n']) for o in save_ops]
        # expected continuation from old and from new
        co = os.path.join(d, 'co%d' % k); shutil.copytree(base, co)
        exp_old = result_of(vh(['fs-req', co, sess, inputs[k + 2]]))
        cn = os.path.join(d, 'cn%d' % k); shutil.copytree(a, cn)
        exp_new = result_of(vh(['fs-req', cn, sess, inputs[k + 2]]))
        # ---- model: crash before every operation of the recorded save
        opsfile = os.path.join(d, 'ops%d.json' % k)
        json.dump(dict(ops=mops, total=total), open(opsfile, 'w'))
        open(os.path.join(w, 'fs.cfg'), 'w').write(core.gen_cfg(invariants=['C12_OthersUntouched', 'C12_CompletesNew'], action_constraint='Emit'))
        pred = {}
        r = core.tlc(w, 'FsSave', 'fs.cfg', workers=1, timeout=600, mbt_sink=lambda o: pred.__setitem__(o['k'], o['class']), env={'VERIF_OPS': opsfile})
        core.require_tlc_ok(r, 'FsSave')
        if r.violated:
            raise Infra('FsSave: recorded save does not complete to NEW in the model / touches the neighbour: %s\n%s' % (r.violated, r.out[-1500:]))
        out.add_tlc('FsSave crash enumeration over the recorded save #%d (%d ops)' % (k, len(mops)), r)
        open(os.path.join(w, 'fst.cfg'), 'w').write(core.gen_cfg(invariants=['C12_AtomicTorn']))
        rt = core.tlc(w, 'FsSave', 'fst.cfg', workers=1, timeout=600, env={'VERIF_OPS': opsfile})
        out.cov.setdefault('torn_write_model_only', []).append(dict(save=k, atomic_under_torn_writes=not rt.violated))
        nmodel += len(pred)
        if k == 0:
            out.sample(dict(kind='file operations of one real save (strace) as fed to FsSave.tla', ops=mops, total_bytes=total, model_prediction_per_crash_point=pred))
        # ---- phase 2: kill the real process on entry to each store-touching call of the save
        store_entries = [(n, o, op, raw) for n, o, op, raw in entries if op is not None]
        store_entries = store_entries[first_mut:]
        for j, (name, ordinal, op, raw) in enumerate(store_entries):
            b = os.path.join(d, 'b%d_%d' % (k, j))
            shutil.copytree(base, b)
            ilog = os.path.join(d, 'inj-%d-%d.log' % (k, j))
            p = strace(exe, ['fs-req', b, sess, inputs[k + 1]], ilog, inject=(name, ordinal))
            txt = open(ilog).read()
            if 'killed by SIGKILL' not in txt:
                raise Infra('injection %s#%d did not kill the process' % (name, ordinal))
            ients = parse(ilog, b)
            last = [e for e in ients if e[0] == name and e[1] == ordinal]
            if not last or last[0][2] is None or last[0][2]['op'] != op['op']:
                raise Infra('injected run diverged from the recorded one at %s#%d: %s' % (name, ordinal, last[:1]))
            got = result_of(vh(['fs-load', b, sess]))
            cls = 'OLD' if proj(got) == proj(old) else 'NEW' if proj(got) == proj(new) else ('MISSING' if 'notfound' in got['err'] else 'CORRUPT')
            npoints += 1
            classes.add((op['op'], cls))
            model_cls = pred.get(j + 1)
            model_ok = model_cls in ('OLD', 'NEW')
            neigh_ok = open(os.path.join(b, '@' + neigh), 'rb').read() == neigh_bytes
            cont = result_of(vh(['fs-req', b, sess, inputs[k + 2]]))
            cont_ok = (cls == 'OLD' and proj(cont) == proj(exp_old)) or (cls == 'NEW' and proj(cont) == proj(exp_new))
            case = dict(property=PID, kind='fs-crash', state=k, inputs=warm + inputs[:k + 3], crash_before=dict(syscall=name, ordinal=ordinal, op=op), recovered=got, cls=cls,
                        model_class=model_cls, neighbour_untouched=neigh_ok, continued=cont, expected_from_old=exp_old, expected_from_new=exp_new)
            if j == 1 and k == 0:
                out.sample(dict(kind='real crash point', crash_before=raw[:120], recovered_class=cls, model_class=model_cls, continued_path=cont['path']))
            if (cls in ('OLD', 'NEW')) != model_ok:
                out.drift(dict(note='model and real outcome disagree at this crash point', case=case))
            if cls not in ('OLD', 'NEW'):
                out.violation('C12_Atomic: process killed before %s (%s) while saving state #%d: recovery finds %s (%s); next request -> path %s (a silent restart)' % (
                    name, op['op'], k + 1, cls, got['err'][:80], cont['path']), case)
            elif not neigh_ok:
                out.violation('C12_OthersUntouched: neighbour record changed by a crash before %s' % name, case)
            elif not cont_ok:
                out.violation('C12_Continues: after a crash before %s the session was %s but the next request did not continue from it: %s' % (name, cls, cont), case)
            shutil.rmtree(b, ignore_errors=True)
        # ---- phase 3: a real PARTIAL write followed by process death: RLIMIT_FSIZE makes the kernel accept only the first
        # q bytes of the record write (short write); the process is killed on entry to the write call that would continue it
        for j, (name, ordinal, op, raw) in enumerate(store_entries):
            if op['op'] != 'write' or op['n'] < 4:
                continue
            qs = {1, op['n'] // 2, op['n'] - 1}
            if len(old_bytes) == len(new_bytes):
                # cut inside the span where the two records differ, otherwise a partial write is indistinguishable from none / all
                diff = [i for i in range(len(old_bytes)) if old_bytes[i] != new_bytes[i]]
                if diff:
                    qs |= {diff[0] + 1, (diff[0] + diff[-1]) // 2 + 1, diff[-1]}
            for q in sorted(x for x in qs if 0 < x < op['n']):
                b = os.path.join(d, 'p%d_%d_%d' % (k, j, q))
                shutil.copytree(base, b)
                ilog = os.path.join(d, 'part-%d-%d-%d.log' % (k, j, q))
                p = strace(exe, ['fs-req', b, sess, inputs[k + 1]], ilog, inject=(name, ordinal + 1), fsize=q)
                txt = open(ilog).read()
                ients = parse(ilog, b)
                first = [e for e in ients if e[0] == name and e[1] == ordinal]
                if 'killed by SIGKILL' not in txt or not first or first[0][2] is None or first[0][2]['op'] != 'write' or first[0][2]['n'] != q:
                    raise Infra('partial-write injection did not behave as intended (write #%d, %d bytes): %s' % (ordinal, q, [e[3][:100] for e in first]))
                got = result_of(vh(['fs-load', b, sess]))
                cls = 'OLD' if proj(got) == proj(old) else 'NEW' if proj(got) == proj(new) else ('MISSING' if 'notfound' in got['err'] else 'CORRUPT' if not got['ok'] else 'MIXED')
                npoints += 1
                classes.add(('partial-write', cls))
                neigh_ok = open(os.path.join(b, '@' + neigh), 'rb').read() == neigh_bytes
                case = dict(property=PID, kind='fs-crash', state=k, inputs=warm + inputs[:k + 3], crash_after_partial_write=dict(bytes_written=q, of=op['n'], ordinal=ordinal), recovered=got, cls=cls,
                            old=old, new=new, neighbour_untouched=neigh_ok)
                if cls not in ('OLD', 'NEW'):
                    out.violation('C12_Atomic: process died after %d of %d bytes of the record write while saving state #%d: recovery finds a %s record (%s)' % (
                        q, op['n'], k + 1, cls, got['err'][:60] or 'loads, but is neither the old nor the new state'), case)
                elif not neigh_ok:
                    out.violation('C12_OthersUntouched: neighbour record changed by a partial write', case)
                shutil.rmtree(b, ignore_errors=True)
        # advance base to state k+1 happens at loop start
        for x in (a, co, cn):
            shutil.rmtree(x, ignore_errors=True)
    out.cov['evaluations'] = npoints
    out.cov['distinct_nontrivial'] = len(classes)
    out.cov['traces_validated_against_impl'] = nstates
    out.cov['model_crash_points'] = nmodel
    out.cov['rule'] = ('every store-touching system call of every recorded save x %d consecutive old/new state pairs, process killed on entry; distinct = (operation kind, '
                       'recovered class); each followed by a load in a fresh process and one more engine request' % nstates)
    out.cov['exhaustive'] = True
    return out.finish()


def replay(path):
    log('replay of a crash case re-runs the whole enumeration for its state (crash points are addressed by syscall ordinals of a fresh recording)')
    return run('quick')


def selftest():
    """the classification must detect a truncated record"""
    d = core.scratch('verif-c12s-')
    base = os.path.join(d, 's')
    os.makedirs(base)
    result_of(vh(['fs-req', base, 'alice', '']))
    open(os.path.join(base, '@alice'), 'w').close()
    got = result_of(vh(['fs-load', base, 'alice']))
    if got['ok']:
        log('selftest C12 FAILED: empty record loads')
        return 2
    log('selftest C12 ok: an emptied record is classified as corrupt (%s)' % got['err'][:40])
    return 0
