"""Shared pipeline of C01 / C02 over Render.tla: exhaustive enumeration of small configurations by TLC (contract on the
algorithm model + emission of every configuration), every configuration rendered by the real render.Page for every page
index up to beyond the end, contract evaluated by TLC on the real page families (RenderTrace)."""
import json, os
from . import core
from .core import Outcome, Infra, log

CONTRACT = ['C01_Fits', 'C01_NoSilentTruncation', 'C02_NoPanic', 'C02_PastEndIsError', 'C02_OfferedRenders', 'C02_NavOffered', 'C02_Partition',
            'C02_StaticEverywhere']


def consts(thorough):
    if thorough:
        # (measured: MaxRows 5 over sizes 14..44 is 5.9 M configurations, a 7 GB trace and more than 20 GB of memory for the
        #  orchestrator - it never finished; this universe is about 1 M configurations)
        return dict(Sizes=set(range(14, 41)), RowLens={0, 1, 3, 5, 9}, MaxRows=4, MaxIdx=7, Tpls={4, 9}, Menus={0, 3, 8}, ErrLens={0, 5}, ValLens={0, 2}, Msinks={False, True})
    return dict(Sizes=set(range(18, 35)), RowLens={0, 1, 3, 5}, MaxRows=4, MaxIdx=6, Tpls={4}, Menus={0, 3}, ErrLens={0, 5}, ValLens={0}, Msinks={False, True})


def trace_cfg(invs):
    return core.gen_cfg(spec='TraceSpec', invariants=invs)


def known_matcher(pid):
    ks = {k['matcher']: k for k in core.known_for(pid)}

    def m(inv, ev, drifted):
        if drifted:
            return None                       # the real renderer no longer behaves as the pinned algorithm: nothing is excused
        pages = ev['pages']
        last_ok = max([i for i, p in enumerate(pages) if p['kind'] == 'ok'] or [-1])
        first_ok = min([i for i, p in enumerate(pages) if p['kind'] == 'ok'] or [len(pages)])
        # a page that the grouping produced but that fails the final size check (its rows are never shown)
        mid_fail = any(p['kind'] == 'err' and 'limit exceeded' in p['why'] for p in pages[first_ok + 1:])
        if inv in ('C02_OfferedRenders', 'C02_Partition', 'C02_NavOffered') and mid_fail and 'render-next-into-oversize-page' in ks:
            return ks['render-next-into-oversize-page']
        if inv == 'C02_FitsThenShown' and 'render-conservative-capacity' in ks and pages[0]['kind'] == 'err' and 'capacity insufficient for sink field' in pages[0]['why']:
            return ks['render-conservative-capacity']
        if inv == 'C02_Partition' and 'render-empty-row-dropped' in ks and '' in ev['rows']:
            return ks['render-empty-row-dropped']
        if inv == 'C02_NavOffered' and 'render-empty-row-dropped' in ks and ev['rows'] and ev['rows'][-1] == '':
            return ks['render-empty-row-dropped']
        return None
    return m


WALK = {'C01': ['C01_WalkFits'], 'C02': ['C02_WalkNoFail', 'C02_WalkPartition', 'C02_WalkStatic', 'C02_WalkNav']}


def walk_matcher(pid):
    ks = {k['matcher']: k for k in core.known_for(pid)}

    def m(inv, ev, drifted):
        if drifted:
            return None
        if inv in ('C02_WalkPartition', 'C02_WalkNav') and '' in ev['rows']:
            return ks.get('render-empty-row-dropped')
        if inv in ('C02_WalkNoFail', 'C02_WalkPartition', 'C02_WalkNav') and ev['ended'] == 'error' and len(ev['pages']) > 1:
            return ks.get('render-next-into-oversize-page')
        return None
    return m


def walks(out, pid, w, d, nsess):
    """engine level: clients walking paged nodes with the next selector (long-lived and per-request engines, second visits)."""
    tr = os.path.join(d, 'walks.ndjson')
    core.run_harness(['walk-run', tr, str(nsess)], timeout=3000)
    open(os.path.join(w, 'rw.cfg'), 'w').write(trace_cfg(WALK[pid] + ['Drift_Walk']))
    viol, st = core.validate_trace('RenderTrace', 'rw.cfg', tr, workdir=w, chunk=3000, par=core.NCPU)
    out.cov['evaluations'] += st['events']
    drifted = {idx for inv, idx, ev in viol if inv == 'Drift_Walk'}
    m = walk_matcher(pid)
    kinds = set()
    for line in open(tr):
        ev = json.loads(line)
        kinds.add(('walk', ev['mode'], ev['visit'], ev['node'], min(len(ev['pages']), 5), ev['ended']))
    for inv, idx, ev in viol:
        desc = dict(mode=ev['mode'], node=ev['node'], visit=ev['visit'], cfg=ev['cfg'], ended=ev['ended'],
                    pages=[(p['kind'], p['len'], p['rows'], p['next'], p['prev'], p['why'][:40]) for p in ev['pages']])
        if inv == 'Drift_Walk':
            # a walk whose pages differ from the algorithm transcription: not a verdict by itself, but nothing is excused for it
            out.cov['model_drift_events'] = out.cov.get('model_drift_events', 0) + 1
            out.drift(desc)
            continue
        k = m(inv, ev, idx in drifted)
        if k:
            out.known(k['id'], k['what'])
            continue
        out.violation('%s violated by a client walking a paged node through the real engine: %s' % (inv, json.dumps(desc)[:900]),
                      dict(property=pid, kind='walk', invariant=inv, seed=os.environ.get('VERIF_SEED', '1'), nsess=nsess, sid=ev['sid'], node=ev['node'], visit=ev['visit']))
    return kinds


def replay_walk(pid, case):
    d = core.scratch('verif-rw-')
    tr = os.path.join(d, 'walks.ndjson')
    core.run_harness(['walk-run', tr, str(case['nsess'])], env={'VERIF_SEED': str(case['seed'])})
    rows = [r for r in core.read_ndjson(tr) if r['sid'] == case['sid'] and r['node'] == case['node'] and r['visit'] == case['visit']]
    core.write_ndjson(tr, rows)
    w = core.spec_copy({'rw.cfg': trace_cfg(WALK[pid])})
    viol, _ = core.validate_trace('RenderTrace', 'rw.cfg', tr, workdir=w)
    return viol


def run(pid, tier, mc_invs, mine):
    out = Outcome(pid, tier)
    thorough = tier == 'thorough'
    w = core.spec_copy()
    d = core.scratch('verif-%s-' % pid.lower())
    c = consts(thorough)
    matcher = known_matcher(pid)
    # ---- A: contract clauses that the algorithm model satisfies, exhaustively
    out.stage('A model check')
    open(os.path.join(w, 'rmc.cfg'), 'w').write(core.gen_cfg(constants=c, invariants=mc_invs))
    r = core.tlc(w, 'RenderMC', 'rmc.cfg', workers=core.NCPU, timeout=3000)
    core.require_tlc_ok(r, 'RenderMC')
    if r.violated:
        raise Infra('RenderMC: the algorithm model violates %s (spec error)\n%s' % (r.violated, r.out[-3000:]))
    out.add_tlc('RenderMC exhaustive', r)
    out.cov['tlc_constants'] = {k: sorted(v) if isinstance(v, set) else v for k, v in c.items()}
    out.cov['exhaustive'] = True
    # ---- B: every configuration of the bound rendered by the real code
    out.stage('B generate configurations')
    open(os.path.join(w, 'rgen.cfg'), 'w').write(core.gen_cfg(constants=c, action_constraint='Emit'))
    cp = os.path.join(d, 'cases.ndjson')
    n = [0]
    with open(cp, 'w') as f:
        def sink(o):
            f.write(json.dumps(o, separators=(',', ':')) + '\n')
            n[0] += 1
        r = core.tlc(w, 'RenderMC', 'rgen.cfg', workers=1, timeout=3000, mbt_sink=sink)
    core.require_tlc_ok(r, 'RenderMC generation')
    out.add_tlc('RenderMC configuration emission', r)
    out.stage('B render on real code')
    tr = os.path.join(d, 'trace.ndjson')
    core.run_harness(['render-cases', cp, tr], timeout=9000)
    out.stage('C validate')
    open(os.path.join(w, 'rt.cfg'), 'w').write(trace_cfg(mine + ['Drift_Algo']))
    kinds = set()
    npages = judge(out, pid, w, tr, 'TLC-enumerated configuration', matcher, kinds, mine)
    # canonical cases of the known findings that are kept as files
    for k in core.known_for(pid):
        if k['canonical_case'].endswith('.json'):
            case = json.load(open(os.path.join(core.VERIF, k['canonical_case'])))
            if case.get('kind') != 'render-case':
                continue
            kp = os.path.join(d, 'kc-%s.ndjson' % k['id'])
            open(kp, 'w').write(json.dumps(dict(cfg=case['cfg'], maxidx=case['maxidx'])) + '\n')
            ktr = os.path.join(d, 'kc-%s-trace.ndjson' % k['id'])
            core.run_harness(['render-cases', kp, ktr])
            npages += judge(out, pid, w, ktr, 'canonical case of ' + k['id'], matcher, kinds, mine)
    # ---- C: larger random configurations
    out.stage('C random configurations')
    tr2 = os.path.join(d, 'random.ndjson')
    core.run_harness(['render-random', tr2, '6000' if thorough else '600'], timeout=3000)
    npages += judge(out, pid, w, tr2, 'random configuration', matcher, kinds, mine)
    out.stage('D engine-level walks')
    kinds |= walks(out, pid, w, d, 6000 if thorough else 800)
    out.cov['traces_validated_against_impl'] = out.cov['evaluations']
    out.cov['evaluations'] = npages
    out.cov['distinct_nontrivial'] = len(kinds)
    out.cov['rule'] = ('every configuration of the bound (sizes x row-length sequences x template x menu x browse) and seeded random larger ones, each rendered '
                       'by the real render.Page at every page index from 0 to past the end; evaluations = real Render calls; distinct = (number of pages that '
                       'rendered, page errors seen, has empty row, browse defined, menu present) combinations')
    return out


def judge(out, pid, w, tr, source, matcher, kinds, mine):
    viol, st = core.validate_trace('RenderTrace', 'rt.cfg', tr, workdir=w, chunk=4000, par=core.NCPU)
    out.cov['evaluations'] += st['events']
    drifted = {idx for inv, idx, ev in viol if inv == 'Drift_Algo'}
    npages = 0
    for i, line in enumerate(open(tr)):
        ev = json.loads(line)
        npages += len(ev['pages'])
        kinds.add((sum(1 for p in ev['pages'] if p['kind'] == 'ok'), tuple(sorted({p['why'][:12] for p in ev['pages'] if p['kind'] != 'ok'})),
                   '' in ev['rows'], ev['cfg']['nextLen'] > 0, ev['cfg']['menu'] > 0))
        if i == 1000 or (i == 3 and 'random' in source):
            out.sample(dict(kind=source, cfg=ev['cfg'], pages=[dict(kind=p['kind'], len=p['len'], rows=p['rows'], next=p['next'], prev=p['prev']) for p in ev['pages']]))
    for inv, idx, ev in viol:
        if inv == 'Drift_Algo':
            out.cov['model_drift_events'] = out.cov.get('model_drift_events', 0) + 1
            out.drift(dict(source=source, cfg=ev['cfg'], pages=[(p['kind'], p['len'], p['why'][:30]) for p in ev['pages']]))
            continue
        k = matcher(inv, ev, idx in drifted)
        if k:
            out.known(k['id'], k['what'])
            continue
        out.violation('%s violated by real render.Page (%s): cfg=%s pages=%s' % (inv, source, json.dumps(ev['cfg']),
                      json.dumps([(p['kind'], p['len'], p['rows'], p['next'], p['prev'], p['why'][:40]) for p in ev['pages']])[:600]),
                      dict(property=pid, kind='render-case', invariant=inv, cfg=ev['cfg'], maxidx=len(ev['pages']) - 1))
    return npages


def replay(pid, path, mine):
    case = json.load(open(path))
    if case.get('kind') == 'walk':
        viol = replay_walk(pid, case)
        if viol:
            log('VIOLATION property=%s replay=%s' % (pid, path))
            log('  %s' % viol[0][0])
            return 1
        log('replay: property holds on this walk')
        return 0
    d = core.scratch('verif-rr-')
    cp = os.path.join(d, 'case.ndjson')
    open(cp, 'w').write(json.dumps(dict(cfg=case['cfg'], maxidx=case['maxidx'])) + '\n')
    tr = os.path.join(d, 'trace.ndjson')
    core.run_harness(['render-cases', cp, tr])
    w = core.spec_copy({'rt.cfg': trace_cfg(mine)})
    viol, _ = core.validate_trace('RenderTrace', 'rt.cfg', tr, workdir=w)
    if viol:
        log('VIOLATION property=%s replay=%s' % (pid, path))
        log('  %s' % viol[0][0])
        return 1
    log('replay: property holds on this case')
    return 0


def selftest(pid, mine, corrupt, expect):
    d = core.scratch('verif-rs-')
    tr = os.path.join(d, 't.ndjson')
    core.run_harness(['render-random', tr, '30'], env={'VERIF_SEED': '5'})
    rows = core.read_ndjson(tr)
    corrupt(rows)
    core.write_ndjson(tr, rows)
    w = core.spec_copy({'rt.cfg': trace_cfg(mine)})
    viol, _ = core.validate_trace('RenderTrace', 'rt.cfg', tr, workdir=w)
    if expect not in {v[0] for v in viol}:
        log('selftest %s FAILED: expected %s, got %s' % (pid, expect, sorted({v[0] for v in viol})))
        return 2
    log('selftest %s ok: corrupted page family -> %s' % (pid, expect))
    return 0
