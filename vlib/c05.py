"""C05 - loaded symbols live exactly as long as their stack level; LOAD once while visible; RELOAD replaces; MAP until the next move."""
from . import vise, core
PID = 'C05'
MC = ['C05_ScopeLifetime', 'C05_LimitsHold', 'C05_MappedVisible']
TR = ['C05_Load', 'C05_Scope', 'C05_ReqNoOrphanScope']


def run(tier):
    f = vise.Family(PID, tier, MC, TR, ['scope', 'capacity', 'nav'], modes=('L', 'P'))
    f.out.assumptions = ['external function results are logged by the recording resource (length, identity, flags) and replayed into the spec',
                         'values abstracted to (identity, length)']
    t = f.thorough
    f.out.stage('A model check'); f.model_check(7 if t else 5)
    f.out.stage('B+C model histories on the real engine'); f.replay_model(5 if t else 4)
    f.out.stage('C random programs'); f.random(300 if t else 40, 30 if t else 20, 12, 'LP')
    return f.finish('Cache frames, accounting, mapped set and external-call log of every recorded iteration compared with Vise.tla;')


def replay(path):
    return vise.replay_case(PID, path, TR)


def selftest():
    def corrupt(rows):
        for r in rows:
            if r.get('ev') == 'instr' and r['pre']['code'] and r['pre']['code'][0]['op'] == 'LOAD' and any(e['kind'] == 'func' for e in r['ext']):
                r['ext'] = r['ext'] + [e for e in r['ext'] if e['kind'] == 'func']     # the function ran twice
                return
        raise core.Infra('selftest: no LOAD call in the sample trace')
    return vise.selftest_generic(PID, TR, corrupt, 'C05_Load')
