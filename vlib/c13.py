"""C13 - a storage error on Postgres never wedges the store or loses acknowledged writes."""
import json, os
from . import core
from .core import Outcome, Infra, log

PID = 'C13'
INVS = ['C13_NoPanic', 'C13_ErrorReported', 'C13_NoWedge', 'C13_EndedOnce', 'C13_Multi', 'C13_NoUnackedDurable', 'C13_NotEndedTwice', 'C13_StopAcksByCommit']


def trace_cfg(keys, vals, invs):
    return core.gen_cfg(spec='TraceSpec', constants=dict(Keys=keys, Vals=vals), invariants=invs)


def judge(out, w, tr, source, cases):
    viol, st = core.validate_trace('PgTrace', 'pgt.cfg', tr, workdir=w, chunk=10000, par=core.NCPU, split_on='"first":true')
    out.cov['evaluations'] += st['events']
    kf = {idx for inv, idx, ev in viol if inv == 'Note_KfRegion'}
    ks = {k['matcher']: k for k in core.known_for(PID)}
    for inv, idx, ev in viol:
        if inv == 'Note_KfRegion':
            continue
        if idx in kf and 'pg-sticky-multi' in ks and inv in ('C13_NoWedge', 'C13_EndedOnce', 'C13_Multi'):
            out.known(ks['pg-sticky-multi']['id'], ks['pg-sticky-multi']['what'])
            continue
        seq = cases(ev['seq'])
        out.violation('%s violated by the real pgDb handle (%s): op=%s fl=%s res=%s val=%s log=%s open=%s' % (
            inv, source, json.dumps(ev['op']), ev['fl'], ev['res'], ev['val'], ev['log'], ev['open']),
            dict(property=PID, kind='pg-sequence', invariant=inv, sequence=seq))
    return st['events']


def run(tier):
    out = Outcome(PID, tier)
    thorough = tier == 'thorough'
    out.assumptions = ['the server is an in-process fake of postgres.PgInterface / pgx.Tx / pgx.Rows with transactional semantics and the aborted-transaction rule',
                       'faults: the k-th primitive driver call of an operation fails (begin, exec, query, scan, commit, rollback); a failing statement either poisons the transaction (server-side error) or not (client-side error, "soft"); at most MaxFaults per sequence in the exhaustive part']
    w = core.spec_copy()
    d = core.scratch('verif-c13-')
    keys, vals = {'a', 'b'}, {1, 2}
    # ---- A
    out.stage('A model check')
    c = dict(Keys=keys, Vals=vals, MaxOps=6 if thorough else 5, MaxFaults=2 if thorough else 1)
    open(os.path.join(w, 'pgmc.cfg'), 'w').write(core.gen_cfg(constants=c, invariants=INVS, view='View'))
    r = core.tlc(w, 'PgTxMC', 'pgmc.cfg', workers=core.NCPU, timeout=3000)
    core.require_tlc_ok(r, 'PgTxMC')
    if r.violated:
        raise Infra('PgTxMC: the specification violates %s (spec error)\n%s' % (r.violated, r.out[-3000:]))
    out.add_tlc('PgTxMC exhaustive MaxOps=%d MaxFaults=%d' % (c['MaxOps'], c['MaxFaults']), r)
    out.cov['exhaustive'] = True
    # ---- B: all behaviours of the bounded model on the real handle
    out.stage('B generate behaviours')
    g = dict(Keys=keys, Vals=vals, MaxOps=5 if thorough else 4, MaxFaults=2 if thorough else 1)
    open(os.path.join(w, 'pggen.cfg'), 'w').write(core.gen_cfg(constants=g, view='View', action_constraint='Emit'))
    bp = os.path.join(d, 'beh.ndjson')
    seqs = []
    with open(bp, 'w') as f:
        def sink(o):
            if len(o) == g['MaxOps']:
                seqs.append(o)
                f.write(json.dumps([dict(op=x['op'], k=x['k'], v=x['v'], fl=x['fl'], soft=x['soft']) for x in o], separators=(',', ':')) + '\n')
        r = core.tlc(w, 'PgTxMC', 'pggen.cfg', workers=1, timeout=3000, mbt_sink=sink)
    core.require_tlc_ok(r, 'PgTxMC generation')
    out.add_tlc('PgTxMC behaviour generation', r)
    out.sample(dict(kind='TLC behaviour (operation sequence with fault plan) replayed on pgDb over fakepg', sequence=seqs[len(seqs) // 3]))
    out.stage('B+C replay and validate')
    open(os.path.join(w, 'pgt.cfg'), 'w').write(trace_cfg({'a', 'b', 'c'}, set(range(1, 10)), INVS + ['Note_KfRegion']))
    tr = os.path.join(d, 'mbt.ndjson')
    core.run_harness(['pg-run', bp, tr])
    judge(out, w, tr, 'TLC behaviour', lambda i: seqs[i])
    out.cov['traces_validated_against_impl'] += len(seqs)
    # known-finding canonical case
    for k in core.known_for(PID):
        case = json.load(open(os.path.join(core.VERIF, k['canonical_case'])))
        kp = os.path.join(d, 'kc.ndjson')
        open(kp, 'w').write(json.dumps(case['sequence']) + '\n')
        ktr = os.path.join(d, 'kc-trace.ndjson')
        core.run_harness(['pg-run', kp, ktr])
        judge(out, w, ktr, 'canonical case of ' + k['id'], lambda i: case['sequence'])
    # ---- C: longer random histories with random fault plans
    out.stage('C random histories')
    tr2 = os.path.join(d, 'random.ndjson')
    p = core.run_harness(['pg-random', tr2, '4000' if thorough else '500', '30' if thorough else '14'])
    rows = {}
    for line in open(tr2):
        ev = json.loads(line)
        rows.setdefault(ev['seq'], []).append(dict(ev['op'], fl=ev['fl'], soft=ev['soft']))
    judge(out, w, tr2, 'random history', lambda i: rows[i])
    out.cov['traces_validated_against_impl'] += len(rows)
    kinds = set()
    for path in (tr, tr2):
        for line in open(path):
            ev = json.loads(line)
            kinds.add((ev['op']['op'], ev['res'], tuple(x for x in ev['log'] if x.startswith('FAIL')), ev['open']))
    out.cov['distinct_nontrivial'] = len(kinds)
    out.cov['rule'] = ('all operation sequences of the bound with every placement of the fault budget, replayed on the real pgDb handle; plus seeded random '
                       'histories; distinct = (operation, result class, failed primitive, transactions left open) combinations observed')
    out.sample(dict(kind='recorded real operation', event=json.loads(open(tr2).readline())))
    return out.finish()


def replay(path):
    case = json.load(open(path))
    d = core.scratch('verif-c13r-')
    bp = os.path.join(d, 'b.ndjson')
    open(bp, 'w').write(json.dumps(case['sequence']) + '\n')
    tr = os.path.join(d, 't.ndjson')
    core.run_harness(['pg-run', bp, tr])
    w = core.spec_copy({'pgt.cfg': trace_cfg({'a', 'b', 'c'}, set(range(1, 10)), INVS)})
    viol, _ = core.validate_trace('PgTrace', 'pgt.cfg', tr, workdir=w)
    if viol:
        log('VIOLATION property=%s replay=%s' % (PID, path))
        log('  %s: %s' % (viol[0][0], json.dumps(viol[0][2])[:400]))
        return 1
    log('replay: property holds on this case')
    return 0


def selftest():
    d = core.scratch('verif-c13s-')
    tr = os.path.join(d, 't.ndjson')
    core.run_harness(['pg-random', tr, '20', '10'], env={'VERIF_SEED': '3'})
    rows = core.read_ndjson(tr)
    for r in rows:
        if r['op']['op'] == 'get' and r['res'] == 'ok':
            r['val'] += 1        # a read returning a value that was never acknowledged
            break
    for r in rows:
        if r['fl'] and r['res'] == 'err':
            r['res'] = 'ok'      # a fault swallowed
            break
    core.write_ndjson(tr, rows)
    w = core.spec_copy({'pgt.cfg': trace_cfg({'a', 'b', 'c'}, set(range(1, 10)), INVS)})
    viol, _ = core.validate_trace('PgTrace', 'pgt.cfg', tr, workdir=w)
    names = {v[0] for v in viol}
    if 'C13_NoWedge' not in names or 'C13_ErrorReported' not in names:
        log('selftest C13 FAILED: %s' % sorted(names))
        return 2
    log('selftest C13 ok: wrong value -> C13_NoWedge, swallowed fault -> C13_ErrorReported')
    return 0
