"""C18 - the selected language reaches every lookup and survives the session."""
from . import vise, core
PID = 'C18'
MC = ['C18_LangReaches']
TR = ['C18_Lang', 'C18_ExecLookups', 'C18_FlushLookups', 'C18_LangPersisted', 'C18_Translate', 'C18_TranslateStatic', 'C18_PageHasText', 'C18_LangKept']


def run(tier):
    f = vise.Family(PID, tier, MC, TR, ['lang', 'nav'], modes=('L', 'P'))
    f.out.assumptions = ['the recording resource logs the context language of every GetCode/GetTemplate/GetMenu/FuncFor/function call',
                         'content -> language classification uses the ISO 639 table (third-party module) directly, not go-vise']
    t = f.thorough
    f.out.stage('A model check'); f.model_check(7 if t else 5)
    f.out.stage('B+C model histories on the real engine'); f.replay_model(5 if t else 4)
    f.out.stage('C random programs with language-switching symbols'); f.random(300 if t else 40, 30 if t else 20, 14, 'LP')
    f.out.stage('C end to end: real DbResource over the memory backend with translation subsets'); langrun(f, 120 if t else 15, 12, 10)
    return f.finish('Programs switching language 0-3 times (valid 2/3-letter codes, invalid strings, empty) at arbitrary points, both modes;')


def langrun(f, napps, nsess, maxreq):
    import os, json
    tr = os.path.join(f.d, 'lang.ndjson')
    p = core.run_harness(['lang-run', tr, str(napps), str(nsess), str(maxreq)])
    f.out.cov['traces_validated_against_impl'] += napps * nsess
    viol, st = core.validate_trace('ViseTrace', 'vt.cfg', tr, workdir=f.w, chunk=5000, par=core.NCPU)
    f.out.cov['evaluations'] += st['events']
    for i, line in enumerate(open(tr)):
        ev = json.loads(line)
        for t in ev['tags']:
            f.pairs.add(('langout', t['kind'], t['variant'] == 'default', ev['mode']))
        if i == 7:
            f.out.sample(dict(kind='request served from DbResource with translations', lang=ev['lang'], tags=ev['tags'], translated=ev['translated'][:6]))
    # anti-vacuity: every kind of text (template, menu label, static symbol) must have been rendered, translated and not
    seen = {(k[1], k[2]) for k in f.pairs if k[0] == 'langout'}
    missing = [x for x in [(k, d) for k in 'TLS' for d in (True, False)] if x not in seen]
    if missing:
        raise core.Infra('lang-run rendered no %s (kind, default?) texts: the end-to-end language stage would be vacuous' % missing)
    for inv, idx, ev in viol:
        if inv.startswith('C18'):
            f.out.violation('%s violated end to end (DbResource over memDb): session language %r, tags %s, translations %s' % (inv, ev['lang'], ev['tags'], ev['translated']),
                            dict(property=PID, kind='lang-run', invariant=inv, event=ev))


def replay(path):
    return vise.replay_case(PID, path, TR)


def selftest():
    def corrupt(rows):
        for r in rows:
            if r.get('ev') == 'req' and r['fext']:
                r['fext'][0]['ctxlang'] = 'zzz'
                return
        raise core.Infra('selftest: no flush lookup in the sample trace')
    return vise.selftest_generic(PID, TR, corrupt, 'C18_FlushLookups')
