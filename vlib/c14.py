"""C14 - bytecode encoding and decoding are exact inverses (vm.NewLine, assembler writers, vm.Parse*, disassembler)."""
import json, os
from . import core, codec
from .core import Outcome, Infra, log
PID = 'C14'
INVS = ['C14_NewLineEncodes', 'C14_AsmAgrees', 'C14_DecodesBack', 'C14_ConsumesOwn', 'C14_Listing']


def judge(out, w, tr, source, kinds):
    viol, st = core.validate_trace('BytecodeTrace', 'bt.cfg', tr, workdir=w, chunk=4000, par=core.NCPU)
    out.cov['evaluations'] += st['events']
    out.cov['traces_validated_against_impl'] += st['events']
    for line in open(tr):
        ev = json.loads(line)
        for i in ev['prog']:
            kinds.add((i['op'], min(len(i['a']), 256), tuple(1 if x else 0 for x in i['n']), i['m']))
    for inv, idx, ev in viol:
        brief = [(i['op'], len(i['a']), len(i['b']), i['n'], i['m']) for i in ev['prog']]
        out.violation('%s violated by the real codecs (%s): program=%s decok=%s decpanic=%s listok=%s asmerr=%s' % (
            inv, source, brief, ev['decok'], ev['decpanic'], ev['listok'], ev['asmerr']),
            dict(property=PID, kind='codec-program', invariant=inv, prog=ev['prog']))


def run(tier):
    out = Outcome(PID, tier)
    thorough = tier == 'thorough'
    out.assumptions = ['32-bit integers are byte 4-tuples in the spec; the interior of the four width classes is swept in Go against the class table TLC checks '
                       '(adjacent, gap-free, correct width at both ends), not evaluated value by value by TLC',
                       'assembler route only for symbols the assembly language can spell']
    w = core.spec_copy()
    d = core.scratch('verif-c14-')
    consts = dict(SymLens={1, 2, 254, 255}, MaxProg=2 if thorough else 1)
    out.stage('A model check of the format')
    codec.model_check(out, w, 'BytecodeMC', 'bmc.cfg', consts, ['C14_RoundTrip', 'C14_ProgramRoundTrip', 'C14_MinimalWidth', 'C14_WidthClasses'], 'BytecodeMC')
    out.cov['exhaustive'] = True
    out.stage('B every model instruction / program through the real codecs')
    cp = os.path.join(d, 'cases.ndjson')
    n = codec.emit_cases(out, w, 'BytecodeMC', 'bgen.cfg', dict(consts, MaxProg=1), cp, 'BytecodeMC case emission')
    tr = os.path.join(d, 'enc.ndjson')
    core.run_harness(['codec-cases', cp, tr])
    open(os.path.join(w, 'bt.cfg'), 'w').write(codec.trace_cfg(INVS))
    kinds = set()
    judge(out, w, tr, 'TLC-enumerated instruction', kinds)
    out.sample(dict(kind='TLC-enumerated instruction through NewLine / asm / Parse* / ToString', event=json.loads(open(tr).readline())))
    out.stage('C generated whole programs')
    tr2 = os.path.join(d, 'rand.ndjson')
    core.run_harness(['codec-random', tr2, '5000' if thorough else '600'])
    judge(out, w, tr2, 'generated program', kinds)
    out.stage('integer sweep against the width-class table')
    ranges = [(0, 2 ** 32 - 1)] if thorough else [(0, 2 ** 17), (2 ** 24 - 2 ** 16, 2 ** 24 + 2 ** 16), (2 ** 32 - 2 ** 17, 2 ** 32 - 1), (2 ** 31 - 4096, 2 ** 31 + 4096)]
    swept = 0
    for lo, hi in ranges:
        p = core.run_harness(['codec-sweep', str(lo), str(hi)], timeout=3000)
        s = json.loads([x for x in p.stdout.splitlines() if x.startswith('SUMMARY ')][-1][8:])
        swept += s['values']
        for b in s['bad']:
            v = int(b.split()[1])
            out.violation('C14 integer sweep: %s' % b, dict(property=PID, kind='codec-program', invariant='C14_DecodesBack',
                          prog=[dict(op=3, a=[120], b=[], n=[(v >> 24) & 255, (v >> 16) & 255, (v >> 8) & 255, v & 255], m=0)]))
    out.cov['integers_swept'] = swept
    out.cov['evaluations'] += swept
    out.cov['distinct_nontrivial'] = len(kinds)
    out.cov['rule'] = ('all 12 opcodes x symbol lengths {1,2,254,255} x boundary integers x both modes (TLC-enumerated), generated programs, and an integer sweep '
                       '(complete 2^32 in the thorough tier); distinct = (opcode, symbol length, non-zero byte pattern of the integer, mode)')
    return out.finish()


def replay(path):
    case = json.load(open(path))
    d = core.scratch('verif-c14r-')
    cp = os.path.join(d, 'c.ndjson')
    open(cp, 'w').write(json.dumps(dict(prog=case['prog'])) + '\n')
    tr = os.path.join(d, 't.ndjson')
    core.run_harness(['codec-cases', cp, tr])
    w = core.spec_copy({'bt.cfg': codec.trace_cfg(INVS)})
    viol, _ = core.validate_trace('BytecodeTrace', 'bt.cfg', tr, workdir=w)
    if viol:
        log('VIOLATION property=%s replay=%s' % (PID, path))
        log('  ' + viol[0][0])
        return 1
    log('replay: property holds on this case')
    return 0


def selftest():
    d = core.scratch('verif-c14s-')
    tr = os.path.join(d, 't.ndjson')
    core.run_harness(['codec-random', tr, '20'])
    rows = core.read_ndjson(tr)
    rows[0]['nl'][-1] ^= 1
    rows[1]['dec'][0]['m'] ^= 1
    core.write_ndjson(tr, rows)
    w = core.spec_copy({'bt.cfg': codec.trace_cfg(INVS)})
    viol, _ = core.validate_trace('BytecodeTrace', 'bt.cfg', tr, workdir=w)
    names = {v[0] for v in viol}
    if not {'C14_NewLineEncodes', 'C14_DecodesBack'} <= names:
        log('selftest C14 FAILED: %s' % sorted(names))
        return 2
    log('selftest C14 ok: flipped byte -> C14_NewLineEncodes, flipped decoded field -> C14_DecodesBack')
    return 0
