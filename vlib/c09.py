"""C09 - the symbol cache enforces its limits and accounts for every byte.
A: TLC exhaustive on CacheMC (design satisfies C09).  B: every model transition replayed on cache.Cache.
C: seeded random operation sequences on cache.Cache.  B and C are judged by CacheTrace.tla (TLC)."""
import json, os
from . import core
from .core import Outcome, Infra, log

PROP = 'C09'
CONSTS = dict(Keys={'a', 'b'}, Ids={'x', 'y'}, Lens={0, 1, 5, 65535, 65536, 70000}, Limits={0, 1, 5, 65535},
              Caps={0, 6, 65536, 140000}, MaxOps=3, MaxFrames=3)
INVS = ['C09_Consistent', 'C09_OverLimit', 'C09_RejectedNoop', 'C09_PopReleases', 'C09_ReadsNoop']
TRACE_INVS = ['C09_NoPanic', 'C09_Consistent', 'C09_OverLimit', 'C09_RejectedNoop', 'C09_PopReleases', 'C09_ReadsNoop',
              'C09_GetReturnsStored', 'Continuity']


def trace_cfg(invs):
    return core.gen_cfg(spec='TraceSpec', invariants=invs)


def matcher(inv, ev):
    """known-finding matchers for C09 (none registered while the defects are repaired in /repo)."""
    for k in core.known_for(PROP):
        if k['matcher'] == 'cache-uint16-length' and ev['o']['op'] in ('add', 'update') and ev['o']['len'] > 65535:
            return k
    return None


def judge(out, viol, source):
    """viol: [(invariant, idx, event)] from TLC."""
    for inv, idx, ev in viol:
        if inv == 'Drift_Step':
            out.cov['model_drift_events'] = out.cov.get('model_drift_events', 0) + 1
            out.drift(dict(op=ev['o'], real_ok=ev['ok'], note='real step differs from the Cache.tla step function (not a verdict)'))
            continue
        if inv == 'Continuity':
            raise Infra('continuity failure in %s trace at event %d (recorder bug)' % (source, idx))
        k = matcher(inv, ev)
        if k:
            out.known(k['id'], k['what'])
            continue
        out.violation('%s violated by real cache.Cache (%s): op=%s ok=%s pre.used=%s post.used=%s' % (
            inv, source, json.dumps(ev['o']), ev['ok'], ev['pre']['used'], ev['post']['used']),
            dict(property=PROP, kind='cache-event', invariant=inv, event=ev))


def run(tier):
    out = Outcome(PROP, tier)
    out.assumptions = ['byte strings abstracted to (identity, length) tokens; values are uniform strings of one repeated byte',
                       'exhaustive part bounded by the constants in coverage.tlc_constants']
    thorough = tier == 'thorough'
    w = core.spec_copy()
    # ---- A: the design satisfies C09
    out.stage('A model check')
    c = dict(CONSTS)
    c['MaxOps'] = 4 if thorough else 3
    if not thorough:
        c['Ids'] = {'x', 'y'}
    open(os.path.join(w, 'c09mc.cfg'), 'w').write(core.gen_cfg(constants=c, invariants=INVS, view='View'))
    r = core.tlc(w, 'CacheMC', 'c09mc.cfg', workers=core.NCPU, timeout=1500, coverage=thorough)
    core.require_tlc_ok(r, 'CacheMC')
    if r.violated:
        raise Infra('CacheMC: the specification itself violates %s (spec error)\n%s' % (r.violated, r.out[-2000:]))
    out.add_tlc('CacheMC exhaustive MaxOps=%d' % c['MaxOps'], r)
    out.cov['tlc_constants'] = {k: sorted(v) if isinstance(v, set) else v for k, v in c.items()}
    out.cov['exhaustive'] = True
    # ---- A2: Consistent is inductive - one step with every operation from EVERY consistent cache of a bounded universe
    #          (not only the ones reachable in MaxOps steps), which extends A to histories of any length
    out.stage('A2 inductive step (model)')
    IND = ['C09_Inductive', 'C09_OverLimit', 'C09_RejectedNoop', 'C09_PopReleases', 'C09_ReadsNoop']
    big = dict(Keys={'x', 'y', 'z'}, Lens={0, 1, 5, 65536}, Limits={0, 1, 5}, Caps={0, 6, 70000}, MaxFrames=3) if thorough else \
        dict(Keys={'x', 'y'}, Lens={0, 2, 65536}, Limits={0, 2, 65535}, Caps={0, 3, 140000}, MaxFrames=2)
    open(os.path.join(w, 'c09ind.cfg'), 'w').write(core.gen_cfg(constants=big, invariants=IND))
    r = core.tlc(w, 'CacheInd', 'c09ind.cfg', workers=core.NCPU, timeout=3000)
    core.require_tlc_ok(r, 'CacheInd')
    if r.violated:
        raise Infra('CacheInd: Consistent is not inductive in the specification: %s\n%s' % (r.violated, r.out[-2000:]))
    out.add_tlc('CacheInd: every operation from every consistent cache of the universe %s' % {k: sorted(v) if isinstance(v, set) else v for k, v in big.items()}, r)
    out.cov['inductive_universe'] = {k: sorted(v) if isinstance(v, set) else v for k, v in big.items()}
    # the same steps on the real cache, built directly in each state
    out.stage('A2 inductive step (real cache)')
    med = dict(Keys={'x', 'y'}, Lens={0, 1, 5, 65536}, Limits={0, 1, 5, 65535}, Caps={0, 6, 140000}, MaxFrames=3) if thorough else big
    open(os.path.join(w, 'c09indgen.cfg'), 'w').write(core.gen_cfg(constants=med, action_constraint='Emit'))
    d = core.scratch('verif-c09-')
    steps = os.path.join(d, 'steps.ndjson')
    ns = [0]
    with open(steps, 'w') as f:
        def sink0(o):
            f.write(json.dumps(o, separators=(',', ':')) + '\n')
            ns[0] += 1
            if ns[0] == 4321:
                out.sample(dict(kind='step from an arbitrary consistent cache (CacheInd) executed on a real cache built in that state', step=o))
        r = core.tlc(w, 'CacheInd', 'c09indgen.cfg', workers=1, timeout=3000, mbt_sink=sink0)
    core.require_tlc_ok(r, 'CacheInd generation')
    out.add_tlc('CacheInd step emission', r)
    tr0 = os.path.join(d, 'ind-trace.ndjson')
    core.run_harness(['cache-steps', steps, tr0], timeout=3000)
    open(os.path.join(w, 'c09t.cfg'), 'w').write(trace_cfg(TRACE_INVS + ['Drift_Step']))
    viol, st0 = core.validate_trace('CacheTrace', 'c09t.cfg', tr0, workdir=w, chunk=6000, par=core.NCPU)
    judge(out, viol, 'inductive step from an arbitrary consistent cache')
    out.cov['traces_validated_against_impl'] += ns[0]
    out.cov['evaluations'] += st0['events']
    # ---- B: one real-code test per model transition
    out.stage('B generate')
    g = dict(CONSTS)
    g['MaxOps'] = 3
    g['Ids'] = {'x'}
    if not thorough:
        g.update(Lens={0, 5, 65536}, Limits={0, 5}, Caps={0, 6})
    open(os.path.join(w, 'c09gen.cfg'), 'w').write(core.gen_cfg(constants=g, view='View', action_constraint='Emit'))
    beh = os.path.join(d, 'beh.ndjson')
    nb = [0]
    with open(beh, 'w') as f:
        def sink(o):
            f.write(json.dumps(o, separators=(',', ':')) + '\n')
            nb[0] += 1
            if nb[0] == 777:
                out.sample(dict(kind='TLC behaviour replayed on cache.Cache', steps=o))
        r = core.tlc(w, 'CacheMC', 'c09gen.cfg', workers=1, timeout=1500, mbt_sink=sink)
    core.require_tlc_ok(r, 'CacheMC generation')
    out.add_tlc('CacheMC behaviour generation MaxOps=3', r)
    out.stage('B replay')
    tr = os.path.join(d, 'mbt-trace.ndjson')
    p = core.run_harness(['cache-mbt', beh, tr])
    summ = json.loads([x for x in p.stdout.splitlines() if x.startswith('SUMMARY ')][-1][8:])
    open(os.path.join(w, 'c09t.cfg'), 'w').write(trace_cfg(TRACE_INVS + ['Drift_Step']))
    out.stage('B validate')
    viol, st = core.validate_trace('CacheTrace', 'c09t.cfg', tr, workdir=w)
    judge(out, viol, 'TLC behaviour replay')
    out.cov['traces_validated_against_impl'] += summ['behaviours']
    out.cov['evaluations'] += st['events']
    # ---- C: random sequences on the real cache
    out.stage('C random')
    tr2 = os.path.join(d, 'rand-trace.ndjson')
    nseq, maxlen = (4000, 120) if thorough else (400, 80)
    p = core.run_harness(['cache-random', tr2, str(nseq), str(maxlen)])
    summ2 = json.loads([x for x in p.stdout.splitlines() if x.startswith('SUMMARY ')][-1][8:])
    viol, st2 = core.validate_trace('CacheTrace', 'c09t.cfg', tr2, workdir=w)
    judge(out, viol, 'random sequence')
    out.cov['traces_validated_against_impl'] += summ2['sequences']
    out.cov['evaluations'] += st2['events']
    kinds = set()
    for path in (tr, tr2, tr0):
        for i, line in enumerate(open(path)):
            ev = json.loads(line)
            kinds.add((ev['o']['op'], ev['ok'], ev['o']['len'] > 65535, ev['o']['limit'] > 0, ev['pre']['cap'] > 0, len(ev['pre']['frames'])))
            if i == 5 and path == tr2:
                out.sample(dict(kind='recorded real operation', event=ev))
    out.cov['distinct_nontrivial'] = len(kinds)
    out.cov['rule'] = ('every transition of the bounded model replayed on cache.Cache + seeded random sequences; distinct = '
                       '(operation, accepted?, length>65535?, limited?, capped?, scope depth) combinations observed on the real cache')
    return out.finish()


def replay(path):
    case = json.load(open(path))
    ev = case['event']
    d = core.scratch('verif-c09r-')
    src = os.path.join(d, 'in.json')
    json.dump(ev, open(src, 'w'))
    tr = os.path.join(d, 'trace.ndjson')
    core.run_harness(['cache-replay', src, tr])
    w = core.spec_copy({'c09t.cfg': trace_cfg(TRACE_INVS)})
    viol, _ = core.validate_trace('CacheTrace', 'c09t.cfg', tr, workdir=w)
    for inv, idx, e in viol:
        log('VIOLATION property=%s replay=%s' % (PROP, path))
        log('  %s: op=%s ok=%s' % (inv, json.dumps(e['o']), e['ok']))
        return 1
    log('replay: property holds on this case')
    return 0


def selftest():
    """The binding must bind: a corrupted event has to be rejected."""
    d = core.scratch('verif-c09s-')
    tr = os.path.join(d, 't.ndjson')
    core.run_harness(['cache-random', tr, '5', '30'], env={'VERIF_SEED': '7'})
    rows = core.read_ndjson(tr)
    i = next(i for i, e in enumerate(rows) if e['o']['op'] == 'add' and e['ok'] and e['o']['len'] > 0)
    rows[i]['post']['used'] += 1          # accounting corrupted
    j = next(j for j, e in enumerate(rows) if j > i + 1 and not e['first'])
    del rows[j - 1]                        # a missing event
    core.write_ndjson(tr, rows)
    w = core.spec_copy({'c09t.cfg': trace_cfg(TRACE_INVS)})
    viol, _ = core.validate_trace('CacheTrace', 'c09t.cfg', tr, workdir=w)
    names = {v[0] for v in viol}
    if 'C09_Consistent' not in names or 'Continuity' not in names:
        log('selftest C09 FAILED: corrupted trace not rejected as expected: %s' % names)
        return 2
    log('selftest C09 ok: corrupted accounting -> C09_Consistent, deleted event -> Continuity')
    return 0
